# Builds libdraco variants from /repo's working tree (by /repo's own CMake)
# and the simulator binary linked against each.
#   make VARIANT=asan|dbg|plain|tsi
REPO ?= /repo
VARIANT ?= asan
B := build/$(VARIANT)
CXX := clang++
CC := clang

COMMON := -g -gdwarf-4 -fno-omit-frame-pointer -DDRACO_VERIF -Wno-error
COV := -fsanitize-coverage=trace-pc-guard,pc-table
SAN := -fsanitize=address,undefined,float-cast-overflow -fno-sanitize-recover=all

LIBFLAGS_asan  := -O1 $(COMMON) $(SAN) $(COV) -DNDEBUG
LIBFLAGS_dbg   := -O1 $(COMMON) $(SAN) $(COV) -DDRACO_DEBUG -UNDEBUG
LIBFLAGS_plain := -O2 $(COMMON) $(COV) -DNDEBUG
LIBFLAGS_tsi   := -O1 $(COMMON) -fsanitize=thread -DNDEBUG
# Reach measurement only: unoptimised, so that every rejecting branch keeps its
# own basic block (at -O1 all "return false" of a function share one block).
LIBFLAGS_reach := -O0 $(COMMON) $(COV) -DNDEBUG

SIMFLAGS_asan  := -O1 $(COMMON) $(SAN) -DNDEBUG
SIMFLAGS_dbg   := -O1 $(COMMON) $(SAN) -DDRACO_DEBUG -UNDEBUG
SIMFLAGS_plain := -O2 $(COMMON) -DNDEBUG
SIMFLAGS_tsi   := -O1 $(COMMON) -DNDEBUG -DSIM_TSI
SIMFLAGS_reach := -O1 $(COMMON) -DNDEBUG

LINK_asan  := $(SAN)
LINK_dbg   := $(SAN)
LINK_plain :=
LINK_reach :=
LINK_tsi   := -Wl,--wrap=__cxa_guard_acquire -Wl,--wrap=__cxa_guard_release \
              -Wl,--wrap=__cxa_guard_abort -Wl,--wrap=memcpy -Wl,--wrap=memmove \
              -Wl,--wrap=memset -Wl,--wrap=pthread_mutex_lock \
              -Wl,--wrap=pthread_mutex_unlock -Wl,--wrap=pthread_mutex_trylock \
              -Wl,--wrap=strtok -Wl,--wrap=rand -Wl,--wrap=srand -Wl,--wrap=random \
              -Wl,--wrap=strerror -Wl,--wrap=localtime -Wl,--wrap=gmtime \
              -Wl,--wrap=setlocale

SRCS_common := main.cc alloc.cc steps.cc pool.cc work.cc geom.cc faults.cc chan.cc \
               prim.cc env.cc legacy_eb.cc byz.cc
SRCS_tsi := sched.cc tsanrt.cc
ifeq ($(VARIANT),tsi)
SRCS := $(SRCS_common) $(SRCS_tsi)
DEFS := -DSIM_HAVE_PRIM -DSIM_HAVE_ENV -DSIM_HAVE_SCHED
else
SRCS := $(SRCS_common)
DEFS := -DSIM_HAVE_PRIM -DSIM_HAVE_ENV
endif
SRCS := $(filter $(notdir $(wildcard sim/*.cc)),$(SRCS))
ifeq ($(filter prim.cc,$(SRCS)),)
DEFS := $(filter-out -DSIM_HAVE_PRIM,$(DEFS))
endif
ifeq ($(filter env.cc,$(SRCS)),)
DEFS := $(filter-out -DSIM_HAVE_ENV,$(DEFS))
endif
ifeq ($(filter sched.cc,$(SRCS)),)
DEFS := $(filter-out -DSIM_HAVE_SCHED,$(DEFS))
endif
OBJS := $(patsubst %.cc,$(B)/sim_obj/%.o,$(SRCS)) $(B)/sim_obj/steps_asm.o
ifeq ($(VARIANT),tsi)
OBJS += $(B)/sim_obj/canary_tsi.o
endif
OBJS += $(B)/sim_obj/canary_chan.o
INC := -I$(REPO)/src -I$(B) -Isim

all: $(B)/sim

# Re-configure when the flags of this variant change.
.PHONY: FORCE
$(B)/flags.stamp: FORCE
	@mkdir -p $(B)
	@echo '$(LIBFLAGS_$(VARIANT)) | $(REPO)' | cmp -s - $@ || echo '$(LIBFLAGS_$(VARIANT)) | $(REPO)' > $@

$(B)/build.ninja: $(B)/flags.stamp
	mkdir -p $(B)
	cd $(B) && cmake -G Ninja $(REPO) -DCMAKE_BUILD_TYPE=None \
	  -DCMAKE_CXX_COMPILER=$(CXX) -DCMAKE_C_COMPILER=$(CC) -DDRACO_TESTS=OFF \
	  -DCMAKE_CXX_FLAGS="$(LIBFLAGS_$(VARIANT))" > cmake.log 2>&1 || (cat cmake.log; false)

# Always ask ninja: it rebuilds exactly what changed in /repo's working tree.
.PHONY: lib
lib: $(B)/build.ninja
	cd $(B) && ninja draco_static > ninja.log 2>&1 || (tail -50 ninja.log; false)

# `make lib` first, then `make all` (two invocations, so that timestamps of
# libdraco.a and of /repo headers are read after ninja has run).
$(B)/sim_obj/%.o: sim/%.cc
	@mkdir -p $(B)/sim_obj
	$(CXX) -std=c++17 $(SIMFLAGS_$(VARIANT)) $(DEFS) $(INC) -MMD -MP -c $< -o $@

-include $(OBJS:.o=.d)

$(B)/sim_obj/steps_asm.o: sim/steps_asm.S
	@mkdir -p $(B)/sim_obj
	$(CC) -c $< -o $@

# Instrumented like libdraco (harness-side canaries of the chan/env engines).
$(B)/sim_obj/canary_chan.o: sim/canary_chan.cc
	@mkdir -p $(B)/sim_obj
	$(CXX) -std=c++17 $(LIBFLAGS_$(VARIANT)) -c $< -o $@

# Instrumented like libdraco (harness-side canary for the sched engine).
$(B)/sim_obj/canary_tsi.o: sim/canary_tsi.cc
	@mkdir -p $(B)/sim_obj
	$(CXX) -std=c++17 -O1 -g -fsanitize=thread -c $< -o $@

$(B)/sim: $(OBJS) $(B)/libdraco.a
	$(CXX) -no-pie $(LINK_$(VARIANT)) -o $@ $(OBJS) $(B)/libdraco.a -lpthread -ldl
ifeq ($(VARIANT),tsi)
	# Writable static storage of the executable: address size name.
	nm -S --defined-only -C $@ | awk '$$3 ~ /^[bBdD]$$/ { a=$$1; s=$$2; $$1=$$2=$$3=""; gsub(/^ +/,""); gsub(/ /,"_"); print a, s, $$0 }' > $@.statics
endif

.PHONY: all
