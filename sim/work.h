// Seeded workload generator: geometries and option sets, built only through
// Draco's public API (real code everywhere). A workload is explicit data so it
// can be stored in a plan, shrunk field by field and replayed.
#ifndef VERIF_SIM_WORK_H_
#define VERIF_SIM_WORK_H_

#include <memory>
#include <string>
#include <vector>

#include "common.h"
#include "draco/compression/encode.h"
#include "draco/compression/expert_encode.h"
#include "draco/mesh/mesh.h"
#include "draco/point_cloud/point_cloud.h"

namespace sim {

struct AttDesc {
  int type = 0;  // GeometryAttribute::Type
  int dt = 9;    // DataType
  int nc = 3;
  int mode = 0;  // 0 per-vertex, 1 per-corner with seams, 2 per-face
  int normalized = 0;
  // Value style of integer attributes: 0 = spread values, 1 = a few distinct
  // but large values (entropy coders then pick the raw symbol scheme with a
  // high-precision table even for a handful of points), 2 = about 700 distinct
  // values with a skewed distribution, 3 = the full 32-bit range with extremes.
  int vals = 0;
};

struct Workload {
  int kind = 0;  // 0 mesh, 1 point cloud, 2 keyframe animation
  int topo = 0;
  int n = 8;  // size parameter (about the number of faces / points / frames)
  uint64_t gseed = 1;
  int jit = 1;  // 0 = exactly regular geometry (compresses to almost nothing)
  std::vector<AttDesc> atts;  // atts[0] is POSITION
  int meta = 0;               // 0 none, 1 geometry metadata, 2 + per-attribute
  // Options (-1 = leave at default).
  int expert = 0;
  int method = -1;
  int eb_method = -1;
  int espeed = -1, dspeed = -1;
  int qb[5] = {0, 0, 0, 0, 0};  // by attribute type POSITION..GENERIC
  int pred[5] = {-1, -1, -1, -1, -1};
  // Explicit quantization (origin/range given by the caller): number of origin
  // dimensions per attribute type, 0 = automatic range. May be smaller or
  // larger than the attribute's component count.
  int xq[5] = {0, 0, 0, 0, 0};
  int xo = 0;  // which of four origins the explicit quantization box uses
  int split = -1;
  int builtin = -1;
  int compress_conn = -1;
  int sym_method = -1;
  int track = 0;
  // Features the caller declares unsupported by the target decoder
  // (EncoderOptions::SetSupportedFeature(..., false)): bit 0 = predictive
  // (valence) Edgebreaker, bit 1 = Edgebreaker altogether.
  int nofeat = 0;
  // Legacy-writer stub (simulates an encoder of an older bitstream, which the
  // current library can no longer produce but still decodes):
  //   0 = none (current encoder output as is)
  //   1 = sequential mesh downgraded to bitstream 2.1 (fixed-width counts,
  //       32-bit raw indices for >= 65536 points)
  //   2 = kd-tree point cloud with unsigned integer attributes downgraded to
  //       bitstream 2.2 (integer kd-tree method of the pre-2.3 layout)
  //   3 = kd-tree point cloud, one float position attribute, bitstream 2.2
  //       (float quantization method; payload from FloatPointsTreeEncoder)
  //   4 = mesh coded with the deprecated predictive Edgebreaker traversal
  //       (current bitstream version; the library's own, no longer selectable,
  //       encoder implementation: legacy_eb.cc)
  //   5 = Byzantine Edgebreaker writer (byz.cc): a well-formed but semantically
  //       arbitrary stream derived from |gseed| (0 = the valid reference quad)
  int legacy = 0;

  Json ToJson() const;
  static Workload FromJson(const Json &j);
};

// Size classes: 0 = S (<= 32), 1 = M (<= 2000), 2 = L (<= 50000).
Workload GenerateWorkload(Rng rng, int size_class, int force_kind = -1);

// Builds the geometry (Mesh for kind 0, PointCloud for kind 1).
std::unique_ptr<draco::PointCloud> BuildGeometry(const Workload &w);

void ApplyOptions(const Workload &w, draco::Encoder *enc);
void ApplyOptions(const Workload &w, const draco::PointCloud &pc,
                  draco::ExpertEncoder *enc);

// Full encode with fresh objects. Returns false (with |err|) if the encoder
// rejects the workload.
bool EncodeWorkload(const Workload &w, std::vector<uint8_t> *out,
                    std::string *err);
// Same, reusing an already built geometry.
bool EncodeGeometry(const Workload &w, const draco::PointCloud &geom,
                    std::vector<uint8_t> *out, std::string *err);

}  // namespace sim

#endif  // VERIF_SIM_WORK_H_
