#include "geom.h"

#include <algorithm>
#include <vector>

#include "draco/attributes/attribute_octahedron_transform.h"
#include "draco/attributes/attribute_quantization_transform.h"
#include "draco/metadata/geometry_metadata.h"

namespace sim {

namespace {

void HashMetadata(const draco::Metadata &m, Hasher *h, int depth) {
  if (depth > 64) return;
  h->U64(m.entries().size());
  for (const auto &kv : m.entries()) {
    h->Str(kv.first);
    const std::vector<uint8_t> &d = kv.second.data();
    h->U64(d.size());
    if (!d.empty()) h->Bytes(d.data(), d.size());
  }
  h->U64(m.sub_metadatas().size());
  for (const auto &kv : m.sub_metadatas()) {
    h->Str(kv.first);
    if (kv.second) HashMetadata(*kv.second, h, depth + 1);
  }
}

std::vector<int> AttributeOrder(const draco::PointCloud &pc) {
  std::vector<int> order(pc.num_attributes());
  for (int i = 0; i < pc.num_attributes(); ++i) order[i] = i;
  std::stable_sort(order.begin(), order.end(), [&](int a, int b) {
    return pc.attribute(a)->unique_id() < pc.attribute(b)->unique_id();
  });
  return order;
}

}  // namespace

uint64_t GeometryDigest(const draco::PointCloud &pc, const draco::Mesh *mesh) {
  Hasher h;
  h.U64(pc.num_points());
  h.U64(pc.num_attributes());
  if (mesh) {
    h.U64(mesh->num_faces());
    for (draco::FaceIndex f(0); f < mesh->num_faces(); ++f) {
      const draco::Mesh::Face &face = mesh->face(f);
      for (int c = 0; c < 3; ++c) h.U64(face[c].value());
    }
  } else {
    h.U64(0xffffffffull);
  }
  for (int ai : AttributeOrder(pc)) {
    const draco::PointAttribute *a = pc.attribute(ai);
    h.U64(a->unique_id());
    h.U64(static_cast<uint64_t>(a->attribute_type()));
    h.U64(a->data_type());
    h.U64(a->num_components());
    h.U64(a->normalized());
    h.U64(a->size());
    h.U64(a->is_mapping_identity());
    if (!a->is_mapping_identity() &&
        a->indices_map_size() == pc.num_points()) {
      for (draco::PointIndex p(0); p < pc.num_points(); ++p)
        h.U64(a->mapped_index(p).value());
    }
    const int64_t stride = a->byte_stride();
    const int64_t vb = static_cast<int64_t>(a->num_components()) *
                       draco::DataTypeLength(a->data_type());
    if (a->IsValid() && stride > 0 && vb > 0 && vb <= stride &&
        static_cast<int64_t>(a->buffer()->data_size()) >=
            a->byte_offset() + static_cast<int64_t>(a->size()) * stride) {
      for (draco::AttributeValueIndex v(0); v < a->size(); ++v)
        h.Bytes(a->GetAddress(v), static_cast<size_t>(vb));
    }
    const draco::AttributeTransformData *td = a->GetAttributeTransformData();
    if (td) {
      h.U64(static_cast<uint64_t>(td->transform_type()));
    }
  }
  const draco::GeometryMetadata *gm = pc.GetMetadata();
  if (gm) {
    HashMetadata(*gm, &h, 0);
    h.U64(gm->attribute_metadatas().size());
    for (const auto &am : gm->attribute_metadatas()) {
      if (!am) continue;
      h.U64(am->att_unique_id());
      HashMetadata(*am, &h, 0);
    }
  }
  return h.Digest();
}

std::string ValidateGeometry(const draco::PointCloud &pc,
                             const draco::Mesh *mesh, bool touch,
                             std::string *detail) {
  char buf[256];
  const uint32_t np = pc.num_points();
  if (mesh) {
    for (draco::FaceIndex f(0); f < mesh->num_faces(); ++f) {
      const draco::Mesh::Face &face = mesh->face(f);
      for (int c = 0; c < 3; ++c) {
        if (face[c].value() >= np) {
          snprintf(buf, sizeof(buf), "face %u corner %d index %u num_points %u",
                   f.value(), c, face[c].value(), np);
          *detail = buf;
          return "face_index_range";
        }
      }
    }
  }
  for (int ai = 0; ai < pc.num_attributes(); ++ai) {
    const draco::PointAttribute *a = pc.attribute(ai);
    if (!a) {
      snprintf(buf, sizeof(buf), "attribute %d null", ai);
      *detail = buf;
      return "att_null";
    }
    if (!a->IsValid()) {
      snprintf(buf, sizeof(buf), "attribute %d has no buffer", ai);
      *detail = buf;
      return "att_invalid";
    }
    const int nc = a->num_components();
    const int dl = draco::DataTypeLength(a->data_type());
    if (nc <= 0 || dl <= 0) {
      snprintf(buf, sizeof(buf), "attribute %d num_components %d data type %d",
               ai, nc, static_cast<int>(a->data_type()));
      *detail = buf;
      return "att_descriptor";
    }
    const int64_t stride = a->byte_stride();
    if (stride < static_cast<int64_t>(nc) * dl) {
      snprintf(buf, sizeof(buf), "attribute %d stride %lld < %d*%d", ai,
               static_cast<long long>(stride), nc, dl);
      *detail = buf;
      return "att_stride";
    }
    const int64_t need =
        a->byte_offset() + static_cast<int64_t>(a->size()) * stride;
    if (static_cast<int64_t>(a->buffer()->data_size()) < need) {
      snprintf(buf, sizeof(buf),
               "attribute %d buffer %zu < offset %lld + size %zu * stride %lld",
               ai, a->buffer()->data_size(),
               static_cast<long long>(a->byte_offset()), a->size(),
               static_cast<long long>(stride));
      *detail = buf;
      return "att_buffer_size";
    }
    if (a->is_mapping_identity()) {
      if (a->size() < np) {
        snprintf(buf, sizeof(buf),
                 "attribute %d identity mapped, size %zu < num_points %u", ai,
                 a->size(), np);
        *detail = buf;
        return "att_identity_size";
      }
    } else {
      if (a->indices_map_size() != np) {
        snprintf(buf, sizeof(buf),
                 "attribute %d map size %zu != num_points %u", ai,
                 a->indices_map_size(), np);
        *detail = buf;
        return "att_map_size";
      }
      for (draco::PointIndex p(0); p < np; ++p) {
        const uint32_t v = a->mapped_index(p).value();
        if (v >= a->size()) {
          snprintf(buf, sizeof(buf),
                   "attribute %d point %u maps to value %u, size %zu", ai,
                   p.value(), v, a->size());
          *detail = buf;
          return "att_map_range";
        }
      }
    }
    // Lookup by unique id must find an attribute as well.
    if (pc.GetAttributeByUniqueId(a->unique_id()) == nullptr) {
      snprintf(buf, sizeof(buf), "attribute %d unique id %u not found", ai,
               a->unique_id());
      *detail = buf;
      return "att_unique_id";
    }
  }
  if (!touch) return "";
  // Execute "memory-safe through any public accessor".
  uint64_t sink = 0;
  if (mesh) {
    for (draco::FaceIndex f(0); f < mesh->num_faces(); ++f) {
      const draco::Mesh::Face &face = mesh->face(f);
      sink += face[0].value() + face[1].value() + face[2].value();
    }
  }
  for (int ai = 0; ai < pc.num_attributes(); ++ai) {
    const draco::PointAttribute *a = pc.attribute(ai);
    std::vector<uint8_t> out(static_cast<size_t>(a->byte_stride()) + 16);
    const int nc = a->num_components();
    std::vector<float> fv(static_cast<size_t>(nc) + 4);
    for (draco::PointIndex p(0); p < np; ++p) {
      a->GetMappedValue(p, out.data());
      sink += out[0];
      const draco::AttributeValueIndex vi = a->mapped_index(p);
      if (a->data_type() != draco::DT_BOOL) {
        if (a->ConvertValue<float>(vi, static_cast<int8_t>(nc), fv.data()))
          sink += 1;
      }
      sink += *a->GetAddressOfMappedIndex(p);
    }
    const draco::AttributeTransformData *td = a->GetAttributeTransformData();
    if (td) {
      if (td->transform_type() == draco::ATTRIBUTE_QUANTIZATION_TRANSFORM) {
        draco::AttributeQuantizationTransform t;
        sink += t.InitFromAttribute(*a);
      } else if (td->transform_type() ==
                 draco::ATTRIBUTE_OCTAHEDRON_TRANSFORM) {
        draco::AttributeOctahedronTransform t;
        sink += t.InitFromAttribute(*a);
      }
    }
    // By-type lookups.
    sink += pc.NumNamedAttributes(a->attribute_type());
    sink += pc.GetNamedAttributeId(a->attribute_type()) + 1;
  }
  const draco::GeometryMetadata *gm = pc.GetMetadata();
  if (gm) {
    Hasher h;
    HashMetadata(*gm, &h, 0);
    sink += h.Digest() & 1;
  }
  // Keep |sink| observable.
  if (sink == 0x5eed5eed5eed5eedull) *detail = "sink";
  return "";
}

}  // namespace sim
