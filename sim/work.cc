#include "work.h"

#include <algorithm>
#include <cmath>
#include <cstring>

#include "draco/animation/keyframe_animation.h"
#include "draco/animation/keyframe_animation_encoder.h"
#include "draco/compression/point_cloud/algorithms/float_points_tree_encoder.h"
#include "draco/compression/config/encoding_features.h"
#include "draco/core/encoder_buffer.h"
#include "draco/mesh/triangle_soup_mesh_builder.h"
#include "draco/metadata/geometry_metadata.h"
#include "draco/point_cloud/point_cloud_builder.h"

namespace sim {

using draco::DataType;
using draco::GeometryAttribute;

// ------------------------------------------------------------- JSON ------
Json Workload::ToJson() const {
  Json j = Json::Object();
  j["kind"] = kind;
  j["topo"] = topo;
  j["n"] = n;
  j["gseed"] = static_cast<unsigned long long>(gseed);
  j["jit"] = jit;
  Json a = Json::Array();
  for (const AttDesc &d : atts) {
    Json e = Json::Array();
    e.push(d.type);
    e.push(d.dt);
    e.push(d.nc);
    e.push(d.mode);
    e.push(d.normalized);
    if (d.vals) e.push(d.vals);
    a.push(e);
  }
  j["atts"] = a;
  j["meta"] = meta;
  j["expert"] = expert;
  j["method"] = method;
  j["eb_method"] = eb_method;
  j["espeed"] = espeed;
  j["dspeed"] = dspeed;
  Json q = Json::Array(), p = Json::Array(), x = Json::Array();
  for (int i = 0; i < 5; ++i) {
    q.push(qb[i]);
    p.push(pred[i]);
    x.push(xq[i]);
  }
  j["qb"] = q;
  j["pred"] = p;
  j["xq"] = x;
  j["split"] = split;
  j["builtin"] = builtin;
  j["compress_conn"] = compress_conn;
  j["sym_method"] = sym_method;
  j["track"] = track;
  if (legacy) j["legacy"] = legacy;
  if (nofeat) j["nofeat"] = nofeat;
  if (xo) j["xo"] = xo;
  return j;
}

Workload Workload::FromJson(const Json &j) {
  Workload w;
  w.kind = static_cast<int>(j.get("kind").Int());
  w.topo = static_cast<int>(j.get("topo").Int());
  w.n = static_cast<int>(j.get("n").Int(8));
  w.gseed = j.get("gseed").U64(1);
  w.jit = static_cast<int>(j.get("jit").Int(1));
  const Json &a = j.get("atts");
  for (size_t i = 0; i < a.size(); ++i) {
    AttDesc d;
    const Json &e = a.at(i);
    d.type = static_cast<int>(e.at(0).Int());
    d.dt = static_cast<int>(e.at(1).Int());
    d.nc = static_cast<int>(e.at(2).Int());
    d.mode = static_cast<int>(e.at(3).Int());
    d.normalized = static_cast<int>(e.at(4).Int());
    d.vals = e.size() > 5 ? static_cast<int>(e.at(5).Int()) : 0;
    w.atts.push_back(d);
  }
  w.meta = static_cast<int>(j.get("meta").Int());
  w.expert = static_cast<int>(j.get("expert").Int());
  w.method = static_cast<int>(j.get("method").Int(-1));
  w.eb_method = static_cast<int>(j.get("eb_method").Int(-1));
  w.espeed = static_cast<int>(j.get("espeed").Int(-1));
  w.dspeed = static_cast<int>(j.get("dspeed").Int(-1));
  for (int i = 0; i < 5; ++i) {
    if (j.get("qb").size() > static_cast<size_t>(i))
      w.qb[i] = static_cast<int>(j.get("qb").at(i).Int());
    if (j.get("pred").size() > static_cast<size_t>(i))
      w.pred[i] = static_cast<int>(j.get("pred").at(i).Int(-1));
    if (j.get("xq").size() > static_cast<size_t>(i))
      w.xq[i] = static_cast<int>(j.get("xq").at(i).Int(0));
  }
  w.split = static_cast<int>(j.get("split").Int(-1));
  w.builtin = static_cast<int>(j.get("builtin").Int(-1));
  w.compress_conn = static_cast<int>(j.get("compress_conn").Int(-1));
  w.sym_method = static_cast<int>(j.get("sym_method").Int(-1));
  w.track = static_cast<int>(j.get("track").Int());
  w.legacy = j.has("legacy") ? static_cast<int>(j.get("legacy").Int()) : 0;
  w.nofeat = j.has("nofeat") ? static_cast<int>(j.get("nofeat").Int()) : 0;
  w.xo = j.has("xo") ? static_cast<int>(j.get("xo").Int()) : 0;
  return w;
}

// -------------------------------------------------------- generation -----
namespace {

const int kIntTypes[] = {draco::DT_INT8,  draco::DT_UINT8, draco::DT_INT16,
                         draco::DT_UINT16, draco::DT_INT32, draco::DT_UINT32};

AttDesc MakeAtt(Rng *r, int type, bool mesh) {
  AttDesc d;
  d.type = type;
  switch (type) {
    case GeometryAttribute::NORMAL:
      d.dt = draco::DT_FLOAT32;
      d.nc = 3;
      break;
    case GeometryAttribute::TEX_COORD:
      d.dt = draco::DT_FLOAT32;
      d.nc = 2;
      break;
    case GeometryAttribute::COLOR:
      d.dt = draco::DT_UINT8;
      d.nc = r->Chance(1, 2) ? 3 : 4;
      d.normalized = r->Chance(1, 2);
      break;
    default:
      if (r->Chance(1, 4)) {
        d.dt = draco::DT_FLOAT32;
      } else {
        d.dt = kIntTypes[r->Below(6)];
      }
      d.nc = static_cast<int>(r->Range(1, 4));
      if (r->Fork("vals").Chance(1, 6)) d.vals = 1;
      break;
  }
  if (mesh) {
    uint64_t m = r->Below(10);
    d.mode = m < 5 ? 0 : (m < 9 ? 1 : 2);
  }
  return d;
}

}  // namespace

Workload GenerateWorkload(Rng rng, int size_class, int force_kind) {
  Workload w;
  Rng r = rng.Fork("workload");
  w.gseed = r.Next() >> 2;
  w.jit = r.Fork("jit").Chance(1, 4) ? 0 : 1;
  uint64_t k = r.Below(20);
  w.kind = k < 12 ? 0 : (k < 19 ? 1 : 2);
  if (force_kind >= 0) w.kind = force_kind;
  switch (size_class) {
    case 0:
      w.n = static_cast<int>(r.Range(1, 32));
      break;
    case 1:
      w.n = static_cast<int>(r.Range(33, 2000));
      break;
    default:
      w.n = static_cast<int>(r.Range(2001, 50000));
      break;
  }
  AttDesc pos;
  pos.type = GeometryAttribute::POSITION;
  pos.dt = draco::DT_FLOAT32;
  pos.nc = 3;
  if (w.kind == 1 && r.Chance(1, 4)) {
    // Integer positions (kd-tree handles them without quantization).
    pos.dt = kIntTypes[r.Below(6)];
  }
  if (w.kind == 0 && r.Fork("mesh-int-pos").Chance(1, 8)) {
    // Meshes with integer positions: no quantization transform in the stream,
    // the position descriptor is followed directly by prediction data.
    static const DataType kPosInt[] = {draco::DT_INT16, draco::DT_INT32,
                                       draco::DT_UINT16, draco::DT_UINT32};
    pos.dt = kPosInt[r.Fork("mesh-int-pos-type").Below(4)];
  }
  w.atts.push_back(pos);
  if (w.kind == 0) {
    w.topo = static_cast<int>(r.Below(10));
    int extra = static_cast<int>(r.Below(4));
    static const int types[] = {GeometryAttribute::NORMAL,
                                GeometryAttribute::TEX_COORD,
                                GeometryAttribute::COLOR,
                                GeometryAttribute::GENERIC};
    for (int i = 0; i < extra; ++i)
      w.atts.push_back(MakeAtt(&r, types[r.Below(4)], true));
    w.method = static_cast<int>(r.Range(-1, 1));
    uint64_t e = r.Below(4);
    w.eb_method = e == 0 ? 0 : (e == 1 ? 2 : -1);
    w.split = static_cast<int>(r.Range(-1, 1));
    w.compress_conn = static_cast<int>(r.Range(-1, 1));
  } else if (w.kind == 1) {
    w.topo = static_cast<int>(r.Below(5));
    int extra = static_cast<int>(r.Below(3));
    if (w.topo >= 3 && r.Chance(1, 2)) extra = 0;
    static const int types[] = {GeometryAttribute::NORMAL,
                                GeometryAttribute::COLOR,
                                GeometryAttribute::GENERIC};
    for (int i = 0; i < extra; ++i)
      w.atts.push_back(MakeAtt(&r, types[r.Below(3)], false));
    w.method = static_cast<int>(r.Range(-1, 1));
  } else {
    // Keyframe animation: atts[1..] are the tracks (atts[0] is ignored).
    int tracks = static_cast<int>(r.Range(0, 3));
    for (int i = 0; i < tracks; ++i) {
      AttDesc d;
      d.type = GeometryAttribute::GENERIC;
      d.dt = r.Chance(3, 4) ? draco::DT_FLOAT32 : draco::DT_INT32;
      d.nc = static_cast<int>(r.Range(1, 4));
      w.atts.push_back(d);
    }
  }
  w.meta = r.Chance(1, 5) ? static_cast<int>(r.Range(1, 3)) : 0;
  w.expert = r.Chance(1, 3);
  if (r.Chance(3, 4)) {
    w.espeed = static_cast<int>(r.Range(0, 10));
    w.dspeed = r.Chance(1, 2) ? w.espeed : static_cast<int>(r.Range(0, 10));
  }
  // Quantization: usually on for float attributes.
  static const int def_q[5] = {11, 8, 8, 10, 8};
  for (int t = 0; t < 5; ++t) {
    uint64_t c = r.Below(8);
    if (c < 4) {
      w.qb[t] = def_q[t];
    } else if (c < 6) {
      // (Above ~20 bits the encoder sizes entropy tables by 2^bits: gigabytes.)
      w.qb[t] = static_cast<int>(r.Range(1, 18));
    } else {
      w.qb[t] = 0;
    }
  }
  if (w.kind == 1 && w.method == 1) {
    for (int t = 0; t < 5; ++t)
      if (!w.qb[t]) w.qb[t] = def_q[t];
  }
  // Explicit quantization box for some attribute types (not normals: they use
  // the octahedral transform).
  for (int t = 0; t < 5; ++t) {
    if (t == 1 || !w.qb[t]) continue;
    if (r.Fork(7000 + t).Chance(1, 6)) w.xq[t] = static_cast<int>(r.Fork(7100 + t).Range(1, 4));
  }
  // Prediction schemes.
  if (r.Chance(1, 2)) {
    static const int pos_schemes[] = {-2, 0, 1, 4};
    w.pred[0] = pos_schemes[r.Below(4)];
    static const int nrm[] = {0, 6};
    w.pred[1] = r.Chance(1, 2) ? nrm[r.Below(2)] : -1;
    static const int tex[] = {-2, 0, 1, 4, 5};
    w.pred[3] = r.Chance(1, 2) ? tex[r.Below(5)] : -1;
    static const int gen[] = {-2, 0, 1, 4};
    w.pred[4] = r.Chance(1, 2) ? gen[r.Below(4)] : -1;
    w.pred[2] = r.Chance(1, 2) ? gen[r.Below(4)] : -1;
  }
  if (w.expert) w.builtin = static_cast<int>(r.Range(-1, 1));
  w.sym_method = r.Chance(1, 6) ? static_cast<int>(r.Range(0, 1)) : -1;
  w.track = r.Chance(1, 4);
  if (w.kind == 0 && r.Fork("nofeat").Chance(1, 8))
    w.nofeat = r.Fork("nofeat-which").Chance(3, 4) ? 1 : 2;
  return w;
}

// ----------------------------------------------------------- building ----
namespace {

// With explicit quantization the caller promises values inside the box
// [origin, origin + range]; origin dimensions the caller did not supply are 0.
// Float values of such attributes are shifted to be positive in every dimension.
void ShiftIntoBox(const Workload &w, const AttDesc &d, uint8_t *val) {
  if (d.dt != draco::DT_FLOAT32 || d.type < 0 || d.type > 4) return;
  if (w.xq[d.type] <= 0 || w.qb[d.type] <= 0) return;
  for (int c = 0; c < d.nc && c < 4; ++c) {
    float f;
    memcpy(&f, val + 4 * c, 4);
    f += 70.f;
    memcpy(val + 4 * c, &f, 4);
  }
}

struct Tri {
  int v[3];
};

// Positions and triangles for the mesh topologies.
void BuildTopology(const Workload &w, Rng *r, std::vector<float> *pos,
                   std::vector<Tri> *tris) {
  const int n = w.n < 1 ? 1 : w.n;
  auto add_vertex = [&](float x, float y, float z) {
    pos->push_back(x);
    pos->push_back(y);
    pos->push_back(z);
    return static_cast<int>(pos->size() / 3 - 1);
  };
  auto jit = [&]() {
    const float v = static_cast<float>(r->Unit() * 0.2 - 0.1);
    return w.jit ? v : 0.f;
  };
  auto grid = [&](int faces, float ox, bool wrap_u, bool wrap_v) {
    int quads = (faces + 1) / 2;
    int gw = static_cast<int>(std::sqrt(static_cast<double>(quads)));
    if (gw < 1) gw = 1;
    int gh = (quads + gw - 1) / gw;
    if (wrap_u && gw < 3) wrap_u = false;
    if (wrap_v && gh < 3) wrap_v = false;
    int vw = wrap_u ? gw : gw + 1, vh = wrap_v ? gh : gh + 1;
    int base = static_cast<int>(pos->size() / 3);
    for (int y = 0; y < vh; ++y)
      for (int x = 0; x < vw; ++x) {
        if (wrap_u || wrap_v) {
          double a = 6.283185307 * x / vw, b = 6.283185307 * y / vh;
          add_vertex(ox + static_cast<float>((3 + std::cos(b)) * std::cos(a)),
                     static_cast<float>((3 + std::cos(b)) * std::sin(a)),
                     static_cast<float>(std::sin(b)) + jit());
        } else {
          add_vertex(ox + x + jit(), y + jit(), jit());
        }
      }
    int made = 0;
    for (int y = 0; y < gh && made < faces; ++y)
      for (int x = 0; x < gw && made < faces; ++x) {
        int a = base + y * vw + x;
        int b = base + y * vw + (x + 1) % vw;
        int c = base + ((y + 1) % vh) * vw + x;
        int d = base + ((y + 1) % vh) * vw + (x + 1) % vw;
        tris->push_back(Tri{{a, b, c}});
        ++made;
        if (made < faces) {
          tris->push_back(Tri{{b, d, c}});
          ++made;
        }
      }
  };
  switch (w.topo) {
    case 0:  // open grid
      grid(n, 0, false, false);
      break;
    case 1:  // closed (torus) or cylinder
      grid(n, 0, true, n >= 18);
      break;
    case 2: {  // several components
      int comps = 2 + static_cast<int>(r->Below(3));
      int per = n / comps < 1 ? 1 : n / comps;
      for (int c = 0; c < comps; ++c) grid(per, c * 40.f, false, false);
      break;
    }
    case 3: {  // stacked tetrahedra (closed components)
      int tets = (n + 3) / 4;
      for (int t = 0; t < tets; ++t) {
        float o = t * 3.f;
        int a = add_vertex(o + jit(), jit(), jit());
        int b = add_vertex(o + 1 + jit(), jit(), jit());
        int c = add_vertex(o + jit(), 1 + jit(), jit());
        int d = add_vertex(o + jit(), jit(), 1 + jit());
        tris->push_back(Tri{{a, c, b}});
        tris->push_back(Tri{{a, b, d}});
        tris->push_back(Tri{{b, c, d}});
        tris->push_back(Tri{{a, d, c}});
      }
      break;
    }
    case 4: {  // non-manifold edge: a "book" of pages around one spine
      int a = add_vertex(0, 0, 0), b = add_vertex(0, 1, 0);
      int pages = n < 3 ? 3 : n;
      for (int p = 0; p < pages; ++p) {
        double ang = 6.283185307 * p / pages;
        int c = add_vertex(static_cast<float>(std::cos(ang)), 0.5f + jit(),
                           static_cast<float>(std::sin(ang)));
        if (p % 2) {
          tris->push_back(Tri{{a, b, c}});
        } else {
          tris->push_back(Tri{{b, a, c}});
        }
      }
      break;
    }
    case 5: {  // bow-tie vertex: fans sharing one vertex
      int c = add_vertex(0, 0, 0);
      int fans = 2 + static_cast<int>(r->Below(2));
      int per = n / fans < 1 ? 1 : n / fans;
      for (int f = 0; f < fans; ++f) {
        int prev = add_vertex(f * 5.f + 1, jit(), f * 1.f);
        for (int i = 0; i < per; ++i) {
          int nxt = add_vertex(f * 5.f + 1 + jit(), 1.f + i + jit(), f * 1.f);
          tris->push_back(Tri{{c, prev, nxt}});
          prev = nxt;
        }
      }
      break;
    }
    case 6: {  // grid plus duplicate / flipped / degenerate faces
      grid(n, 0, false, false);
      size_t base = tris->size();
      int extra = 1 + static_cast<int>(r->Below(4));
      for (int i = 0; i < extra; ++i) {
        Tri t = (*tris)[r->Below(base)];
        switch (r->Below(3)) {
          case 0:
            break;  // duplicate
          case 1:
            std::swap(t.v[0], t.v[1]);
            break;  // flipped
          default:
            t.v[2] = t.v[0];
            break;  // degenerate
        }
        tris->push_back(t);
      }
      break;
    }
    case 7: {  // random soup over few vertices
      int nv = 3 + static_cast<int>(r->Below(static_cast<uint64_t>(n) + 1));
      for (int i = 0; i < nv; ++i)
        add_vertex(static_cast<float>(r->Unit() * 10),
                   static_cast<float>(r->Unit() * 10),
                   static_cast<float>(r->Unit() * 10));
      for (int i = 0; i < n; ++i) {
        Tri t;
        for (int c = 0; c < 3; ++c) t.v[c] = static_cast<int>(r->Below(nv));
        tris->push_back(t);
      }
      break;
    }
    case 9: {  // closed cubes (12 faces, 8 vertices each)
      static const int f[12][3] = {{0, 2, 1}, {0, 3, 2}, {4, 5, 6}, {4, 6, 7},
                                   {0, 1, 5}, {0, 5, 4}, {1, 2, 6}, {1, 6, 5},
                                   {2, 3, 7}, {2, 7, 6}, {3, 0, 4}, {3, 4, 7}};
      const int cubes = (n + 11) / 12;
      for (int c = 0; c < cubes; ++c) {
        const float o = c * 3.f;
        const int b = static_cast<int>(pos->size() / 3);
        for (int i = 0; i < 8; ++i)
          add_vertex(o + ((i & 1) ^ ((i >> 1) & 1) ? 1.f : 0.f) + jit(),
                     ((i >> 1) & 1 ? 1.f : 0.f) + jit(), (i >> 2 ? 1.f : 0.f) + jit());
        for (int i = 0; i < 12; ++i)
          tris->push_back(Tri{{b + f[i][0], b + f[i][1], b + f[i][2]}});
      }
      break;
    }
    default: {  // 8: fan / strip mix with a hole
      grid(n, 0, true, false);
      if (tris->size() > 4) tris->erase(tris->begin() + tris->size() / 2);
      break;
    }
  }
  if (tris->empty()) {
    int a = add_vertex(0, 0, 0), b = add_vertex(1, 0, 0), c = add_vertex(0, 1, 0);
    tris->push_back(Tri{{a, b, c}});
  }
}

// Writes one attribute value (nc components of type dt) derived from a
// per-element seed into |out| (at most 16 bytes).
void MakeValue(const AttDesc &d, uint64_t key, const float *pos, uint8_t *out) {
  uint64_t s = key;
  switch (d.type) {
    case GeometryAttribute::NORMAL: {
      float v[3];
      double x = (splitmix64(&s) >> 11) * (1.0 / 9007199254740992.0) * 2 - 1;
      double y = (splitmix64(&s) >> 11) * (1.0 / 9007199254740992.0) * 2 - 1;
      double z = (splitmix64(&s) >> 11) * (1.0 / 9007199254740992.0) * 2 - 1;
      double l = std::sqrt(x * x + y * y + z * z);
      if (l < 1e-6) {
        x = 0;
        y = 0;
        z = 1;
        l = 1;
      }
      v[0] = static_cast<float>(x / l);
      v[1] = static_cast<float>(y / l);
      v[2] = static_cast<float>(z / l);
      memcpy(out, v, 12);
      return;
    }
    case GeometryAttribute::TEX_COORD: {
      float v[2];
      v[0] = pos ? pos[0] * 0.1f : 0.f;
      v[1] = pos ? pos[1] * 0.1f : 0.f;
      v[0] += static_cast<float>((splitmix64(&s) & 7) * 0.125);
      v[1] += static_cast<float>((splitmix64(&s) & 7) * 0.125);
      memcpy(out, v, 8);
      return;
    }
    default:
      break;
  }
  for (int c = 0; c < d.nc; ++c) {
    uint64_t v = splitmix64(&s);
    if (d.vals == 2 && d.dt != draco::DT_FLOAT32 && d.dt != draco::DT_INT8 &&
        d.dt != draco::DT_UINT8) {
      // About 700 distinct values, small ones far more frequent: enough unique
      // symbols for the widest entropy tables once there are a few thousand
      // values.
      const double u = (v >> 11) * (1.0 / 9007199254740992.0);
      const uint32_t x32 = static_cast<uint32_t>(700.0 * u * u * u);
      if (d.dt == draco::DT_INT16 || d.dt == draco::DT_UINT16) {
        const uint16_t x = static_cast<uint16_t>(x32);
        memcpy(out + 2 * c, &x, 2);
      } else {
        memcpy(out + 4 * c, &x32, 4);
      }
      continue;
    }
    if (d.vals == 3 && (d.dt == draco::DT_INT32 || d.dt == draco::DT_UINT32)) {
      // The full 32-bit range including the extremes (values stored verbatim
      // then need all four bytes).
      uint32_t x = static_cast<uint32_t>(v);
      if ((v >> 40) % 7 == 0) x = 0x80000000u;
      if ((v >> 40) % 7 == 1) x = 0x7fffffffu;
      memcpy(out + 4 * c, &x, 4);
      continue;
    }
    if (d.vals == 1 && d.dt != draco::DT_FLOAT32) {
      // Four levels spanning the type's (positive) range used here.
      const uint64_t level = v & 3;
      switch (d.dt) {
        case draco::DT_INT8:
        case draco::DT_UINT8: {
          uint8_t x = static_cast<uint8_t>(level * 42);
          memcpy(out + c, &x, 1);
          break;
        }
        case draco::DT_INT16:
        case draco::DT_UINT16: {
          uint16_t x = static_cast<uint16_t>(level * 1365);
          memcpy(out + 2 * c, &x, 2);
          break;
        }
        default: {
          uint32_t x = static_cast<uint32_t>(level * 349525);
          memcpy(out + 4 * c, &x, 4);
          break;
        }
      }
      continue;
    }
    switch (d.dt) {
      case draco::DT_INT8: {
        int8_t x = static_cast<int8_t>(v % 29) - 14;
        memcpy(out + c, &x, 1);
        break;
      }
      case draco::DT_UINT8: {
        uint8_t x = (v & 64) ? static_cast<uint8_t>(v % 7) * 36
                             : static_cast<uint8_t>(v);
        memcpy(out + c, &x, 1);
        break;
      }
      case draco::DT_INT16: {
        int16_t x = static_cast<int16_t>(v % 2001) - 1000;
        memcpy(out + 2 * c, &x, 2);
        break;
      }
      case draco::DT_UINT16: {
        uint16_t x = static_cast<uint16_t>(v % 5000);
        memcpy(out + 2 * c, &x, 2);
        break;
      }
      case draco::DT_INT32: {
        int32_t x = static_cast<int32_t>(v % 200001) - 100000;
        memcpy(out + 4 * c, &x, 4);
        break;
      }
      case draco::DT_UINT32: {
        uint32_t x = static_cast<uint32_t>(v % 1000003);
        memcpy(out + 4 * c, &x, 4);
        break;
      }
      default: {
        float x = static_cast<float>((v % 20001) * 0.001 - 10.0);
        memcpy(out + 4 * c, &x, 4);
        break;
      }
    }
  }
}

void WritePosition(const AttDesc &d, const float *p, uint8_t *out) {
  if (d.dt == draco::DT_FLOAT32) {
    memcpy(out, p, 12);
    return;
  }
  for (int c = 0; c < 3; ++c) {
    double v = p[c] * 100.0;
    switch (d.dt) {
      case draco::DT_INT8: {
        int8_t x = static_cast<int8_t>(static_cast<int>(v) % 127);
        memcpy(out + c, &x, 1);
        break;
      }
      case draco::DT_UINT8: {
        uint8_t x = static_cast<uint8_t>(static_cast<int>(std::fabs(v)) % 255);
        memcpy(out + c, &x, 1);
        break;
      }
      case draco::DT_INT16: {
        int16_t x = static_cast<int16_t>(static_cast<int>(v) % 32000);
        memcpy(out + 2 * c, &x, 2);
        break;
      }
      case draco::DT_UINT16: {
        uint16_t x = static_cast<uint16_t>(static_cast<int>(std::fabs(v)) % 65000);
        memcpy(out + 2 * c, &x, 2);
        break;
      }
      case draco::DT_INT32: {
        int32_t x = static_cast<int32_t>(v);
        memcpy(out + 4 * c, &x, 4);
        break;
      }
      default: {
        uint32_t x = static_cast<uint32_t>(std::fabs(v));
        memcpy(out + 4 * c, &x, 4);
        break;
      }
    }
  }
}

std::unique_ptr<draco::GeometryMetadata> MakeMetadata(Rng *r) {
  std::unique_ptr<draco::GeometryMetadata> m(new draco::GeometryMetadata());
  m->AddEntryInt("i", static_cast<int32_t>(r->Below(1000)));
  m->AddEntryString("name", "sim" + std::to_string(r->Below(100)));
  m->AddEntryDouble("d", r->Unit());
  std::vector<int32_t> arr;
  for (uint64_t i = 0, n = 1 + r->Below(5); i < n; ++i)
    arr.push_back(static_cast<int32_t>(r->Below(100)));
  m->AddEntryIntArray("arr", arr);
  std::vector<uint8_t> bin;
  for (uint64_t i = 0, n = 1 + r->Below(40); i < n; ++i)
    bin.push_back(static_cast<uint8_t>(r->Next()));
  m->AddEntryBinary("bin", bin);
  if (r->Chance(1, 2)) {
    std::unique_ptr<draco::Metadata> sub(new draco::Metadata());
    sub->AddEntryInt("x", 7);
    if (r->Chance(1, 2)) {
      std::unique_ptr<draco::Metadata> sub2(new draco::Metadata());
      sub2->AddEntryString("deep", "v");
      sub->AddSubMetadata("s2", std::move(sub2));
    }
    m->AddSubMetadata("sub", std::move(sub));
  }
  return m;
}

std::unique_ptr<draco::AttributeMetadata> MakeAttMetadata(Rng *r) {
  std::unique_ptr<draco::AttributeMetadata> m(new draco::AttributeMetadata());
  m->AddEntryString("name", "att" + std::to_string(r->Below(10)));
  m->AddEntryInt("k", static_cast<int32_t>(r->Below(50)));
  return m;
}

std::unique_ptr<draco::PointCloud> BuildMesh(const Workload &w) {
  Rng r(w.gseed);
  std::vector<float> pos;
  std::vector<Tri> tris;
  BuildTopology(w, &r, &pos, &tris);
  draco::TriangleSoupMeshBuilder mb;
  mb.Start(static_cast<int>(tris.size()));
  std::vector<int> ids;
  for (const AttDesc &d : w.atts) {
    ids.push_back(mb.AddAttribute(static_cast<GeometryAttribute::Type>(d.type),
                                  static_cast<int8_t>(d.nc),
                                  static_cast<DataType>(d.dt),
                                  d.normalized != 0));
  }
  const uint64_t vseed = r.Next();
  for (size_t f = 0; f < tris.size(); ++f) {
    for (size_t a = 0; a < w.atts.size(); ++a) {
      const AttDesc &d = w.atts[a];
      uint8_t val[3][16];
      memset(val, 0, sizeof(val));
      if (a == 0) {
        for (int c = 0; c < 3; ++c) {
          WritePosition(d, &pos[3 * tris[f].v[c]], val[c]);
          ShiftIntoBox(w, d, val[c]);
        }
        mb.SetAttributeValuesForFace(ids[a],
                                     draco::FaceIndex(static_cast<uint32_t>(f)),
                                     val[0], val[1], val[2]);
        continue;
      }
      if (d.mode == 2) {
        MakeValue(d, mix64(vseed + a, 0x10000000ull + f), nullptr, val[0]);
        ShiftIntoBox(w, d, val[0]);
        mb.SetPerFaceAttributeValueForFace(
            ids[a], draco::FaceIndex(static_cast<uint32_t>(f)), val[0]);
        continue;
      }
      for (int c = 0; c < 3; ++c) {
        uint64_t key = mix64(vseed + a, static_cast<uint64_t>(tris[f].v[c]));
        if (d.mode == 1) {
          // Seams: about a quarter of the corners get a face-dependent value.
          uint64_t s = mix64(key, f);
          if ((s & 3) == 0) key = s;
        }
        MakeValue(d, key, &pos[3 * tris[f].v[c]], val[c]);
        ShiftIntoBox(w, d, val[c]);
      }
      mb.SetAttributeValuesForFace(ids[a],
                                   draco::FaceIndex(static_cast<uint32_t>(f)),
                                   val[0], val[1], val[2]);
    }
  }
  if (w.meta >= 1) mb.AddMetadata(MakeMetadata(&r));
  if (w.meta >= 2)
    for (size_t a = 0; a < ids.size(); a += 2)
      mb.AddAttributeMetadata(ids[a], MakeAttMetadata(&r));
  // meta == 3: a second metadata block for the same attribute (two blocks with
  // one attribute unique id, as repeated AddAttributeMetadata calls produce).
  if (w.meta == 3) mb.AddAttributeMetadata(ids[0], MakeAttMetadata(&r));
  std::unique_ptr<draco::Mesh> mesh = mb.Finalize();
  return std::unique_ptr<draco::PointCloud>(mesh.release());
}

std::unique_ptr<draco::PointCloud> BuildCloud(const Workload &w) {
  Rng r(w.gseed);
  const int n = w.n < 1 ? 1 : w.n;
  draco::PointCloudBuilder pb;
  pb.Start(static_cast<uint32_t>(n));
  std::vector<int> ids;
  for (const AttDesc &d : w.atts) {
    ids.push_back(pb.AddAttribute(static_cast<GeometryAttribute::Type>(d.type),
                                  static_cast<int8_t>(d.nc),
                                  static_cast<DataType>(d.dt),
                                  d.normalized != 0));
  }
  const uint64_t vseed = r.Next();
  for (int i = 0; i < n; ++i) {
    float p[3];
    int src = i;
    if (w.topo == 1 && i > 0 && r.Chance(1, 4)) src = static_cast<int>(r.Below(i));
    uint64_t s = mix64(vseed, src);
    for (int c = 0; c < 3; ++c) {
      double u = (splitmix64(&s) >> 11) * (1.0 / 9007199254740992.0);
      p[c] = static_cast<float>(w.topo == 2 ? std::floor(u * 8) : u * 100 - 50);
    }
    if (w.topo == 3) {
      // Lattice in raster order: compresses to a fraction of a byte per point.
      p[0] = static_cast<float>(i % 32);
      p[1] = static_cast<float>(i / 32);
      p[2] = 0.f;
    } else if (w.topo == 4) {
      p[0] = 1.f;
      p[1] = 2.f;
      p[2] = 3.f;  // all points identical
    }
    for (size_t a = 0; a < w.atts.size(); ++a) {
      uint8_t val[16];
      memset(val, 0, sizeof(val));
      if (a == 0) {
        WritePosition(w.atts[a], p, val);
      } else {
        MakeValue(w.atts[a], mix64(vseed + a, src), p, val);
      }
      ShiftIntoBox(w, w.atts[a], val);
      pb.SetAttributeValueForPoint(ids[a], draco::PointIndex(i), val);
    }
  }
  if (w.meta >= 2)
    for (size_t a = 0; a < ids.size(); a += 2)
      pb.AddAttributeMetadata(ids[a], MakeAttMetadata(&r));
  if (w.meta == 3) pb.AddAttributeMetadata(ids[0], MakeAttMetadata(&r));
  std::unique_ptr<draco::PointCloud> pc = pb.Finalize(w.topo == 1);
  if (pc && w.meta == 1) pc->AddMetadata(MakeMetadata(&r));
  return pc;
}

std::unique_ptr<draco::PointCloud> BuildAnimation(const Workload &w) {
  Rng r(w.gseed);
  const int n = w.n < 1 ? 1 : w.n;
  std::unique_ptr<draco::KeyframeAnimation> anim(new draco::KeyframeAnimation());
  std::vector<float> ts(n);
  for (int i = 0; i < n; ++i) ts[i] = i * 0.25f;
  anim->SetTimestamps(ts);
  for (size_t a = 1; a < w.atts.size(); ++a) {
    const AttDesc &d = w.atts[a];
    if (d.dt == draco::DT_INT32) {
      std::vector<int32_t> data(static_cast<size_t>(n) * d.nc);
      for (auto &v : data) v = static_cast<int32_t>(r.Below(1000)) - 500;
      anim->AddKeyframes(draco::DT_INT32, d.nc, data);
    } else {
      std::vector<float> data(static_cast<size_t>(n) * d.nc);
      for (auto &v : data) v = static_cast<float>(r.Unit() * 4 - 2);
      anim->AddKeyframes(draco::DT_FLOAT32, d.nc, data);
    }
  }
  return std::unique_ptr<draco::PointCloud>(anim.release());
}

template <class OptT, class KeyFn>
void ApplyCommon(const Workload &w, OptT *opt, KeyFn key_is_set) {
  (void)key_is_set;
  if (w.split >= 0) opt->SetGlobalBool("split_mesh_on_seams", w.split != 0);
  if (w.compress_conn >= 0)
    opt->SetGlobalBool("compress_connectivity", w.compress_conn != 0);
  if (w.eb_method >= 0) opt->SetGlobalInt("edgebreaker_method", w.eb_method);
  if (w.sym_method >= 0)
    opt->SetGlobalInt("symbol_encoding_method", w.sym_method);
  if (w.nofeat & 1)
    opt->SetSupportedFeature(draco::features::kPredictiveEdgebreaker, false);
  if (w.nofeat & 2) opt->SetSupportedFeature(draco::features::kEdgebreaker, false);
}

}  // namespace

std::unique_ptr<draco::PointCloud> BuildGeometry(const Workload &w) {
  if (w.kind == 0) return BuildMesh(w);
  if (w.kind == 1) return BuildCloud(w);
  return BuildAnimation(w);
}

void ApplyOptions(const Workload &w, draco::Encoder *enc) {
  if (w.espeed >= 0 || w.dspeed >= 0)
    enc->SetSpeedOptions(w.espeed < 0 ? 5 : w.espeed,
                         w.dspeed < 0 ? 5 : w.dspeed);
  if (w.method >= 0) enc->SetEncodingMethod(w.method);
  for (int t = 0; t < 5; ++t) {
    if (w.qb[t] > 0 && w.xq[t] > 0) {
      float origin[4];
      for (int d = 0; d < 4; ++d) origin[d] = -64.f - t - d - 9.f * (w.xo & 3);
      enc->SetAttributeExplicitQuantization(
          static_cast<GeometryAttribute::Type>(t), w.qb[t], w.xq[t] > 4 ? 4 : w.xq[t],
          origin, 512.f);
    } else if (w.qb[t] > 0)
      enc->SetAttributeQuantization(static_cast<GeometryAttribute::Type>(t),
                                    w.qb[t]);
    if (w.pred[t] != -1)
      enc->SetAttributePredictionScheme(static_cast<GeometryAttribute::Type>(t),
                                        w.pred[t]);
  }
  if (w.track) enc->SetTrackEncodedProperties(true);
  ApplyCommon(w, &enc->options(), 0);
}

void ApplyOptions(const Workload &w, const draco::PointCloud &pc,
                  draco::ExpertEncoder *enc) {
  if (w.espeed >= 0 || w.dspeed >= 0)
    enc->SetSpeedOptions(w.espeed < 0 ? 5 : w.espeed,
                         w.dspeed < 0 ? 5 : w.dspeed);
  if (w.method >= 0) enc->SetEncodingMethod(w.method);
  for (int i = 0; i < pc.num_attributes(); ++i) {
    int t = pc.attribute(i)->attribute_type();
    if (t < 0 || t > 4) continue;
    if (w.qb[t] > 0 && w.xq[t] > 0) {
      float origin[4];
      for (int d = 0; d < 4; ++d) origin[d] = -64.f - t - d - 9.f * (w.xo & 3);
      enc->SetAttributeExplicitQuantization(i, w.qb[t], w.xq[t] > 4 ? 4 : w.xq[t],
                                            origin, 512.f);
    } else if (w.qb[t] > 0) {
      enc->SetAttributeQuantization(i, w.qb[t]);
    }
    if (w.pred[t] != -1) enc->SetAttributePredictionScheme(i, w.pred[t]);
  }
  if (w.builtin >= 0) enc->SetUseBuiltInAttributeCompression(w.builtin != 0);
  if (w.track) enc->SetTrackEncodedProperties(true);
  ApplyCommon(w, &enc->options(), 0);
}


// ------------------------------------------------- legacy writer stub -----
// (byz.cc)
bool ByzEdgebreakerStream(const Workload &w, std::vector<uint8_t> *out,
                          std::string *err);
// (legacy_eb.cc)
bool EncodePredictiveEdgebreaker(const Workload &w, const draco::Mesh &mesh,
                                 std::vector<uint8_t> *out, std::string *err);

// Older bitstreams are produced by rewriting the container bytes of the
// current encoder's output (the entropy-coded payloads are unchanged between
// these versions; only counts, index widths and the place of a few header
// fields differ), or, for the float kd-tree method, by framing the payload of
// the library's own FloatPointsTreeEncoder. This is simulator code (a stub
// standing in for an old encoder); everything that reads the result is real.
namespace {

bool GetVarint(const std::vector<uint8_t> &b, size_t *pos, uint64_t *v) {
  *v = 0;
  for (int shift = 0; shift < 64; shift += 7) {
    if (*pos >= b.size()) return false;
    const uint8_t c = b[(*pos)++];
    *v |= static_cast<uint64_t>(c & 0x7f) << shift;
    if (!(c & 0x80)) return true;
  }
  return false;
}

void PutU32(std::vector<uint8_t> *o, uint32_t v) {
  for (int i = 0; i < 4; ++i) o->push_back(static_cast<uint8_t>(v >> (8 * i)));
}

bool LegacyFail(std::string *err, const char *what) {
  if (err) *err = std::string("legacy stub: ") + what;
  return false;
}

bool DowngradeSequentialMesh(const std::vector<uint8_t> &in,
                             std::vector<uint8_t> *out, std::string *err) {
  if (in.size() < 14 || memcmp(in.data(), "DRACO", 5) != 0)
    return LegacyFail(err, "no header");
  if (in[5] != 2 || in[6] != 2 || in[7] != 1 || in[8] != 0)
    return LegacyFail(err, "not a 2.2 sequential mesh");
  if (in[9] != 0 || in[10] != 0) return LegacyFail(err, "flags set");
  size_t pos = 11;
  uint64_t nf, np;
  if (!GetVarint(in, &pos, &nf) || !GetVarint(in, &pos, &np))
    return LegacyFail(err, "counts");
  if (pos >= in.size()) return LegacyFail(err, "short");
  const uint8_t cm = in[pos++];
  out->assign(in.begin(), in.begin() + 11);
  (*out)[6] = 1;
  PutU32(out, static_cast<uint32_t>(nf));
  PutU32(out, static_cast<uint32_t>(np));
  out->push_back(cm);
  if (cm != 0) {
    size_t width = np < 256 ? 1 : (np < 65536 ? 2 : (np < (1u << 21) ? 0 : 4));
    if (width) {
      if (pos + nf * 3 * width > in.size()) return LegacyFail(err, "indices");
      out->insert(out->end(), in.begin() + pos, in.begin() + pos + nf * 3 * width);
      pos += nf * 3 * width;
    } else {
      for (uint64_t i = 0; i < nf * 3; ++i) {
        uint64_t v;
        if (!GetVarint(in, &pos, &v)) return LegacyFail(err, "varint index");
        PutU32(out, static_cast<uint32_t>(v));
      }
    }
  }
  out->insert(out->end(), in.begin() + pos, in.end());
  return true;
}

bool DowngradeKdTreeInt(const std::vector<uint8_t> &in,
                        std::vector<uint8_t> *out, std::string *err) {
  if (in.size() < 18 || memcmp(in.data(), "DRACO", 5) != 0)
    return LegacyFail(err, "no header");
  if (in[5] != 2 || in[6] != 3 || in[7] != 0 || in[8] != 1)
    return LegacyFail(err, "not a 2.3 kd-tree point cloud");
  if (in[9] != 0 || in[10] != 0) return LegacyFail(err, "flags set");
  size_t pos = 11;
  uint32_t np;
  memcpy(&np, &in[pos], 4);
  pos += 4;
  if (in[pos++] != 1) return LegacyFail(err, "more than one attributes decoder");
  uint64_t na;
  if (!GetVarint(in, &pos, &na)) return LegacyFail(err, "attribute count");
  for (uint64_t a = 0; a < na; ++a) {
    if (pos + 4 > in.size()) return LegacyFail(err, "descriptor");
    const uint8_t dt = in[pos + 1];
    if (dt != draco::DT_UINT8 && dt != draco::DT_UINT16 && dt != draco::DT_UINT32)
      return LegacyFail(err, "attribute is not an unsigned integer");
    pos += 4;
    uint64_t id;
    if (!GetVarint(in, &pos, &id)) return LegacyFail(err, "unique id");
  }
  if (pos >= in.size()) return LegacyFail(err, "short");
  out->assign(in.begin(), in.begin() + pos);
  (*out)[6] = 2;
  out->push_back(1);         // kKdTreeIntegerEncoding
  out->push_back(in[pos++]);  // compression level
  PutU32(out, np);
  out->insert(out->end(), in.begin() + pos, in.end());
  return true;
}

bool LegacyKdTreeFloat(const Workload &w, const draco::PointCloud &geom,
                       std::vector<uint8_t> *out, std::string *err) {
  const draco::PointAttribute *pa =
      geom.GetNamedAttribute(GeometryAttribute::POSITION);
  if (geom.num_attributes() != 1 || !pa ||
      pa->data_type() != draco::DT_FLOAT32 || pa->num_components() != 3)
    return LegacyFail(err, "needs exactly one float32x3 position attribute");
  std::vector<draco::Point3f> pts(geom.num_points());
  for (draco::PointIndex i(0); i < geom.num_points(); ++i) {
    float v[3];
    pa->GetMappedValue(i, v);
    pts[i.value()] = draco::Point3f(v[0], v[1], v[2]);
  }
  const uint32_t qb = w.qb[0] > 0 ? static_cast<uint32_t>(w.qb[0]) : 11;
  const int speed = w.espeed < 0 ? 5 : w.espeed;
  const uint32_t level = static_cast<uint32_t>(std::min(10 - speed, 6));
  draco::FloatPointsTreeEncoder enc(draco::KDTREE, qb, level);
  if (!enc.EncodePointCloud(pts.begin(), pts.end()))
    return LegacyFail(err, "FloatPointsTreeEncoder failed");
  out->clear();
  const uint8_t hdr[11] = {'D', 'R', 'A', 'C', 'O', 2, 2, 0, 1, 0, 0};
  out->insert(out->end(), hdr, hdr + 11);
  PutU32(out, geom.num_points());
  out->push_back(1);  // attributes decoders
  out->push_back(1);  // attributes (varint)
  out->push_back(GeometryAttribute::POSITION);
  out->push_back(draco::DT_FLOAT32);
  out->push_back(3);
  out->push_back(0);
  out->push_back(static_cast<uint8_t>(pa->unique_id() & 0x7f));
  out->push_back(0);  // kKdTreeQuantizationEncoding
  out->push_back(static_cast<uint8_t>(level));
  PutU32(out, geom.num_points());
  const uint8_t *d = reinterpret_cast<const uint8_t *>(enc.buffer()->data());
  out->insert(out->end(), d, d + enc.buffer()->size());
  return true;
}

}  // namespace

bool EncodeGeometry(const Workload &w, const draco::PointCloud &geom,
                    std::vector<uint8_t> *out, std::string *err) {
  if (w.legacy == 3) return LegacyKdTreeFloat(w, geom, out, err);
  if (w.legacy == 5) return ByzEdgebreakerStream(w, out, err);
  if (w.legacy == 4) {
    if (w.kind != 0) return LegacyFail(err, "predictive edgebreaker needs a mesh");
    return EncodePredictiveEdgebreaker(w, static_cast<const draco::Mesh &>(geom),
                                       out, err);
  }
  draco::EncoderBuffer buf;
  draco::Status st;
  if (w.kind == 2) {
    draco::KeyframeAnimationEncoder enc;
    draco::EncoderOptions opt = draco::EncoderOptions::CreateDefaultOptions();
    if (w.espeed >= 0) opt.SetSpeed(w.espeed, w.dspeed < 0 ? 5 : w.dspeed);
    for (int i = 1; i < geom.num_attributes(); ++i)
      if (w.qb[4] > 0 && geom.attribute(i)->data_type() == draco::DT_FLOAT32)
        opt.SetAttributeInt(i, "quantization_bits", w.qb[4]);
    st = enc.EncodeKeyframeAnimation(
        static_cast<const draco::KeyframeAnimation &>(geom), opt, &buf);
  } else if (w.expert) {
    if (w.kind == 0) {
      draco::ExpertEncoder enc(static_cast<const draco::Mesh &>(geom));
      ApplyOptions(w, geom, &enc);
      st = enc.EncodeToBuffer(&buf);
    } else {
      draco::ExpertEncoder enc(geom);
      ApplyOptions(w, geom, &enc);
      st = enc.EncodeToBuffer(&buf);
    }
  } else {
    draco::Encoder enc;
    ApplyOptions(w, &enc);
    if (w.kind == 0) {
      st = enc.EncodeMeshToBuffer(static_cast<const draco::Mesh &>(geom), &buf);
    } else {
      st = enc.EncodePointCloudToBuffer(geom, &buf);
    }
  }
  if (!st.ok()) {
    if (err) *err = st.error_msg_string();
    return false;
  }
  out->assign(reinterpret_cast<const uint8_t *>(buf.data()),
              reinterpret_cast<const uint8_t *>(buf.data()) + buf.size());
  if (w.legacy == 1 || w.legacy == 2) {
    std::vector<uint8_t> cur;
    cur.swap(*out);
    return w.legacy == 1 ? DowngradeSequentialMesh(cur, out, err)
                         : DowngradeKdTreeInt(cur, out, err);
  }
  return true;
}

bool EncodeWorkload(const Workload &w, std::vector<uint8_t> *out,
                    std::string *err) {
  std::unique_ptr<draco::PointCloud> g = BuildGeometry(w);
  if (!g) {
    if (err) *err = "geometry build failed";
    return false;
  }
  return EncodeGeometry(w, *g, out, err);
}

}  // namespace sim
