// Process pool: W long-lived forked workers, worker w executes run indices
// i = begin + w, begin + w + W, ... Results are lines written to a pipe (never
// stdout). Before each run the worker stores the run index in shared memory so
// that a worker killed by a sanitizer, a signal or the wall-clock limit is
// attributed to exactly one run. Dead workers are restarted at their next
// index. Results are consumed by the parent in arrival order; callers merge by
// run index so that outcomes do not depend on W.
#ifndef VERIF_SIM_POOL_H_
#define VERIF_SIM_POOL_H_

#include <cstdint>
#include <functional>
#include <string>

namespace sim {

struct PoolDeath {
  uint64_t idx = 0;       // run that was executing
  bool in_run = false;    // false: died outside a run (init/finish)
  int exit_code = -1;     // if exited
  int signal = 0;         // if signalled
  bool wallclock = false; // killed by the parent for exceeding the limit
  uint32_t tag = 0;       // last value given to PoolSetTag by the worker
  std::string log_path;   // stderr of the worker (sanitizer report)
};

struct PoolOptions {
  int workers = 16;
  uint64_t begin = 0, end = 0;
  double budget_s = 0;       // 0 = none; workers stop taking runs afterwards
  double run_limit_s = 120;  // harness protection only
  std::string log_dir;       // per-worker stderr files
  bool hashlog = false;      // open runhash.<w>.bin for PoolLogRunHash
  uint64_t max_deaths = 400; // stop handing out runs after this many deaths
  uint64_t head = 4;         // leading indices always visited first, in order
                             // (canaries, fault-free and exhaustive runs)
  bool permute = false;      // visit [begin,end) in a strided permutation, so
                             // that a batch cut short by its time budget has
                             // sampled the whole index space evenly
};

struct PoolCallbacks {
  // In the worker, once after fork.
  std::function<void(int worker)> init;
  // In the worker: executes run |idx|; lines appended to |out| are sent to the
  // parent (each must end with '\n').
  std::function<void(uint64_t idx, std::string *out)> run;
  // In the worker, before exit: summary lines.
  std::function<void(int worker, std::string *out)> finish;
  // In the parent.
  std::function<void(const std::string &line)> on_line;
  std::function<void(const PoolDeath &death)> on_death;
};

struct PoolResult {
  uint64_t runs_started = 0;  // distinct indices handed out (approx: max idx)
  uint64_t deaths = 0;
  bool budget_hit = false;
  double wall_s = 0;
};

PoolResult RunPool(const PoolOptions &opt, const PoolCallbacks &cb);

// Inside a worker: true once the parent asked workers to stop.
bool PoolShouldStop();

// Inside a worker: records a phase tag reported in PoolDeath if it dies.
void PoolSetTag(uint32_t tag);

// Inside a worker: appends (idx, hash) to the worker's run-hash log (one
// write per run, so that a dying worker loses nothing already logged).
void PoolLogRunHash(uint64_t idx, uint64_t hash);

// Classifies a dead worker from its stderr log (sanitizer report, assertion,
// terminate, signal). Returns the class; |sig| gets the stable signature
// (error class + top draco:: frame), |excerpt| the head of the log.
std::string ClassifyDeath(const PoolDeath &d, std::string *sig,
                          std::string *excerpt);

double WallNow();

}  // namespace sim

#endif  // VERIF_SIM_POOL_H_
