// Logical clock of the simulator: one step = one basic-block edge executed
// inside libdraco (-fsanitize-coverage=trace-pc-guard callbacks implemented
// here). Also owns the step budget, the lasso (state recurrence) detector and
// the edge bitmap used as the reach measure.
#ifndef VERIF_SIM_STEPS_H_
#define VERIF_SIM_STEPS_H_

#include <setjmp.h>

#include <cstdint>

namespace sim {

extern uint64_t g_steps;        // steps since StepsBegin
extern sigjmp_buf g_steps_jmp;  // where the watchdog jumps to

enum StepsVerdict {
  STEPS_OK = 0,
  STEPS_UNDECIDED = 1,   // budget and lasso search exhausted: no verdict
  STEPS_RECURRENCE = 2,  // exact state recurrence: proven non-termination
};

struct StepsConfig {
  uint64_t budget = 0;           // patience budget; 0 = unlimited
  bool lasso = false;            // search for a state recurrence afterwards
  uint64_t lasso_steps = 0;      // further steps allowed in lasso mode
  uint64_t lasso_visits = 0;     // anchor visits allowed
  void *stack_base = nullptr;    // harness frame that invoked the call
};

// Usage:
//   StepsArm(cfg);
//   int v = sigsetjmp(g_steps_jmp, 0);
//   if (v == 0) { StepsStart(); call(); StepsStop(); } else { verdict = v; }
void StepsArm(const StepsConfig &cfg);
void StepsStart();
void StepsStop();
// Info about the last watchdog event.
uint32_t StepsLastGuard();        // guard id at which the budget ran out
uint64_t StepsLassoVisits();
uintptr_t StepsLastPc();
// Call stack (return addresses) at the moment the recurrence was proven or the
// budget ran out.
int StepsLastBacktrace(void **out, int max);

// Edge bitmap (per process, cumulative).
uint32_t StepsNumGuards();
const uint8_t *StepsBitmap();
void StepsClearBitmap();
uint32_t StepsCountCovered();
// PC table (from -fsanitize-coverage=pc-table), index = guard id - 1.
const uintptr_t *StepsPcTable(uint32_t *n);

}  // namespace sim

#endif  // VERIF_SIM_STEPS_H_
