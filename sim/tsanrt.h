// Our implementation of the ThreadSanitizer ABI. libdraco is compiled with
// -fsanitize=thread *code generation* only; every load/store/atomic/function
// entry of Draco therefore calls into this runtime, which
//  (1) classifies the address: writable static storage of the executable or
//      not (heap, stack and TLS are private to a task by construction);
//  (2) logs accesses to static storage with vector clocks (race oracle);
//  (3) turns them - and atomics, static-init guards, mutexes, operator
//      new/delete and sampled function entries - into preemption points of the
//      seeded scheduler.
#ifndef VERIF_SIM_TSANRT_H_
#define VERIF_SIM_TSANRT_H_

#include <cstdint>
#include <string>
#include <vector>

namespace sim {

enum YieldKind {
  Y_ALLOC = 0,
  Y_FREE,
  Y_STATIC_READ,
  Y_STATIC_WRITE,
  Y_ATOMIC,
  Y_GUARD,
  Y_MUTEX,
  Y_FUNC,
  Y_NUM
};
extern const char *kYieldNames[Y_NUM];

struct RaceReport {
  uintptr_t addr;
  int task_a, task_b;
  bool write_a, write_b;
  uintptr_t pc_a, pc_b;
  std::string symbol;
};

// Hooks the scheduler installs.
typedef void (*TsanYieldFn)(int kind);
typedef int (*TsanTaskFn)();  // current task id or -1

void TsanSetHooks(TsanYieldFn yield, TsanTaskFn task);
// Forced switch to the task that holds a guard / mutex the caller needs.
void TsanSetYieldTo(void (*fn)(int task));
// Called by a task right before it ends (accounts its access counter).
void TsanTaskEnd();
// Instrumented accesses made by the calling thread since TsanTaskStart.
uint64_t TsanThreadAccesses();
// Starts / stops logging (clears shadow state and vector clocks).
void TsanBeginEpisode(int num_tasks);
void TsanEndEpisode(std::vector<RaceReport> *races, uint64_t *static_accesses,
                    uint64_t *total_accesses);
// Happens-before edges the scheduler knows about.
void TsanTaskStart(int task);
// Function-entry sampling interval for the current episode (0 = off).
void TsanSetFuncSampling(uint64_t mean_interval, uint64_t seed);
// Sampled preemption points at accesses to non-static memory (0 = none).
void TsanSetAccessSampling(uint64_t mean_interval);
// Static storage bounds (from /proc/self/maps) and symbol lookup.
bool TsanIsStatic(uintptr_t addr);
std::string TsanSymbolOf(uintptr_t addr);
uint64_t TsanStaticBytes();
size_t TsanNumSymbols();

}  // namespace sim

#endif  // VERIF_SIM_TSANRT_H_
