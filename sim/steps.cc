#include "steps.h"

#include <execinfo.h>
#include <stdlib.h>
#include <string.h>

#include "alloc.h"
#include "common.h"

extern "C" {
uint8_t sim_steps_on = 0;
uint8_t *sim_steps_bitmap = nullptr;
uint64_t sim_steps_count = 0;
uint64_t sim_steps_limit = ~0ull;
uint32_t sim_steps_anchor = 0;
uint64_t sim_steps_regs[7];
void sim_steps_slow(uint32_t *guard);
}

namespace sim {

uint64_t g_steps = 0;
sigjmp_buf g_steps_jmp;

namespace {

uint32_t g_num_guards = 0;
uint8_t g_dummy_bitmap[8];
const uintptr_t *g_pcs = nullptr;
uint32_t g_npcs = 0;

StepsConfig g_cfg;
bool g_lasso_mode = false;
uint64_t g_lasso_start = 0;
uint64_t g_visits = 0;
uint64_t g_total_visits = 0;
uint64_t g_bytes_hashed = 0;
uint32_t g_last_guard = 0;
uintptr_t g_last_pc = 0;

struct Snapshot {
  bool valid = false;
  uint64_t cheap = 0;
  uint64_t full = 0;
  uint8_t *data = nullptr;
  size_t size = 0;
  size_t cap = 0;
};
Snapshot g_snap;

constexpr uint64_t kReanchorInterval = 1ull << 22;
constexpr uint64_t kMaxBytesHashed = 8ull << 30;

struct Sink {
  // mode 0: hash; 1: append into snapshot; 2: compare with snapshot
  int mode;
  Hasher h;
  size_t pos = 0;
  bool equal = true;
};

__attribute__((no_sanitize("address"))) void SinkBytes(Sink *s, const void *p,
                                                         size_t n) {
  if (s->mode == 0) {
    // Fast 64-bit-at-a-time mixing (not byte FNV: heaps can be megabytes).
    const uint8_t *d = static_cast<const uint8_t *>(p);
    uint64_t a = s->h.a, b = s->h.b;
    size_t i = 0;
    for (; i + 8 <= n; i += 8) {
      uint64_t v;
      memcpy(&v, d + i, 8);
      a = (a ^ v) * 0x9E3779B97F4A7C15ull;
      a ^= a >> 32;
      b = (b + v) * 0xff51afd7ed558ccdull;
      b ^= b >> 29;
    }
    for (; i < n; ++i) {
      a = (a ^ d[i]) * 0x100000001b3ull;
      b = (b + d[i]) * 0xff51afd7ed558ccdull;
    }
    s->h.a = a;
    s->h.b = b;
    g_bytes_hashed += n;
  } else if (s->mode == 1) {
    if (g_snap.size + n > g_snap.cap) {
      size_t ncap = g_snap.cap ? g_snap.cap : 65536;
      while (ncap < g_snap.size + n) ncap *= 2;
      g_snap.data = static_cast<uint8_t *>(realloc(g_snap.data, ncap));
      if (!g_snap.data) abort();
      g_snap.cap = ncap;
    }
    const uint8_t *d = static_cast<const uint8_t *>(p);
    uint8_t *o = g_snap.data + g_snap.size;
    for (size_t i = 0; i < n; ++i) o[i] = d[i];
    g_snap.size += n;
  } else {
    if (!s->equal) return;
    if (s->pos + n > g_snap.size) {
      s->equal = false;
      return;
    }
    const uint8_t *d = static_cast<const uint8_t *>(p);
    const uint8_t *o = g_snap.data + s->pos;
    for (size_t i = 0; i < n; ++i) {
      if (o[i] != d[i]) {
        s->equal = false;
        return;
      }
    }
    s->pos += n;
  }
}

__attribute__((no_sanitize("address"))) void VisitBlock(void *ctx,
                                                          const void *ptr,
                                                          size_t size) {
  Sink *s = static_cast<Sink *>(ctx);
  uint64_t hdr[2] = {reinterpret_cast<uintptr_t>(ptr), size};
  SinkBytes(s, hdr, sizeof(hdr));
  SinkBytes(s, ptr, size);
}

__attribute__((no_sanitize("address"))) void WalkState(Sink *s) {
  SinkBytes(s, sim_steps_regs, sizeof(sim_steps_regs));
  const uint8_t *sp = reinterpret_cast<const uint8_t *>(sim_steps_regs[6]);
  const uint8_t *base = static_cast<const uint8_t *>(g_cfg.stack_base);
  if (base > sp) SinkBytes(s, sp, base - sp);
  AllocVisitLive(&VisitBlock, s);
}

__attribute__((no_sanitize("address"))) uint64_t CheapHash() {
  Sink s;
  s.mode = 0;
  SinkBytes(&s, sim_steps_regs, sizeof(sim_steps_regs));
  const uint8_t *sp = reinterpret_cast<const uint8_t *>(sim_steps_regs[6]);
  const uint8_t *base = static_cast<const uint8_t *>(g_cfg.stack_base);
  size_t n = base > sp ? static_cast<size_t>(base - sp) : 0;
  if (n > 512) n = 512;
  SinkBytes(&s, sp, n);
  return s.h.Digest();
}

void *g_bt[24];
int g_bt_n = 0;

[[noreturn]] void Finish(int verdict) {
  g_bt_n = backtrace(g_bt, 24);
  sim_steps_on = 0;
  sim_steps_anchor = 0;
  sim_steps_limit = ~0ull;
  g_steps = sim_steps_count;
  g_lasso_mode = false;
  siglongjmp(g_steps_jmp, verdict);
}

void TakeSnapshot(uint64_t cheap) {
  Sink h;
  h.mode = 0;
  WalkState(&h);
  g_snap.size = 0;
  Sink c;
  c.mode = 1;
  WalkState(&c);
  g_snap.valid = true;
  g_snap.cheap = cheap;
  g_snap.full = h.h.Digest();
}

void OnAnchorVisit() {
  ++g_visits;
  ++g_total_visits;
  const uint64_t cheap = CheapHash();
  if (g_snap.valid && cheap == g_snap.cheap) {
    Sink h;
    h.mode = 0;
    WalkState(&h);
    if (h.h.Digest() == g_snap.full) {
      Sink c;
      c.mode = 2;
      WalkState(&c);
      if (c.equal && c.pos == g_snap.size) Finish(STEPS_RECURRENCE);
    }
  }
  // Brent: refresh the saved state at power-of-two visit counts.
  if ((g_visits & (g_visits - 1)) == 0) TakeSnapshot(cheap);
  if (g_total_visits >= g_cfg.lasso_visits ||
      g_bytes_hashed >= kMaxBytesHashed) {
    Finish(STEPS_UNDECIDED);
  }
}

void Reanchor(uint32_t id) {
  sim_steps_anchor = id;
  g_visits = 0;
  g_snap.valid = false;
  sim_steps_limit = sim_steps_count + kReanchorInterval;
}

}  // namespace

void StepsArm(const StepsConfig &cfg) {
  g_cfg = cfg;
  g_lasso_mode = false;
  g_visits = g_total_visits = 0;
  g_bytes_hashed = 0;
  g_snap.valid = false;
  sim_steps_anchor = 0;
  sim_steps_count = 0;
  g_steps = 0;
  sim_steps_limit = cfg.budget ? cfg.budget : ~0ull;
  if (!sim_steps_bitmap) sim_steps_bitmap = g_dummy_bitmap;
}

void StepsStart() { sim_steps_on = 1; }

void StepsStop() {
  sim_steps_on = 0;
  g_steps = sim_steps_count;
  sim_steps_anchor = 0;
  sim_steps_limit = ~0ull;
  g_lasso_mode = false;
}

int StepsLastBacktrace(void **out, int max) {
  int n = g_bt_n < max ? g_bt_n : max;
  for (int i = 0; i < n; ++i) out[i] = g_bt[i];
  return n;
}
uint32_t StepsLastGuard() { return g_last_guard; }
uint64_t StepsLassoVisits() { return g_total_visits; }
uintptr_t StepsLastPc() { return g_last_pc; }
uint32_t StepsNumGuards() { return g_num_guards; }
const uint8_t *StepsBitmap() { return sim_steps_bitmap; }
void StepsClearBitmap() {
  if (sim_steps_bitmap && g_num_guards)
    memset(sim_steps_bitmap, 0, g_num_guards + 1);
}
uint32_t StepsCountCovered() {
  uint32_t n = 0;
  for (uint32_t i = 1; i <= g_num_guards; ++i) n += sim_steps_bitmap[i];
  return n;
}
const uintptr_t *StepsPcTable(uint32_t *n) {
  *n = g_npcs;
  return g_pcs;
}

}  // namespace sim

extern "C" void sim_steps_slow(uint32_t *guard) {
  using namespace sim;
  const uint32_t id = *guard;
  g_steps = sim_steps_count;
  if (!g_lasso_mode) {
    // Patience budget exhausted.
    g_last_guard = id;
    if (g_pcs && id >= 1 && id <= g_npcs) g_last_pc = g_pcs[2 * (id - 1)];
    if (!g_cfg.lasso) Finish(STEPS_UNDECIDED);
    g_lasso_mode = true;
    g_lasso_start = sim_steps_count;
    Reanchor(id);
    return;
  }
  if (sim_steps_count - g_lasso_start >= g_cfg.lasso_steps) {
    Finish(STEPS_UNDECIDED);
  }
  if (id == sim_steps_anchor) {
    // A visit also counts as progress for the re-anchor timer.
    sim_steps_limit = sim_steps_count + kReanchorInterval;
    OnAnchorVisit();
    return;
  }
  // Anchor not seen for a long time: it was outside the loop. Pick a new one.
  Reanchor(id);
}

extern "C" void __sanitizer_cov_trace_pc_guard_init(uint32_t *start,
                                                    uint32_t *stop) {
  using namespace sim;
  if (start == stop || *start) return;
  for (uint32_t *x = start; x < stop; ++x) *x = ++g_num_guards;
  uint8_t *nb = static_cast<uint8_t *>(calloc(g_num_guards + 8, 1));
  if (sim_steps_bitmap && sim_steps_bitmap != g_dummy_bitmap) {
    // A second module: keep old coverage (not expected with a static lib).
    free(sim_steps_bitmap);
  }
  sim_steps_bitmap = nb;
}

extern "C" void __sanitizer_cov_pcs_init(const uintptr_t *pcs_beg,
                                         const uintptr_t *pcs_end) {
  using namespace sim;
  g_pcs = pcs_beg;
  g_npcs = static_cast<uint32_t>((pcs_end - pcs_beg) / 2);
}
