#include "faults.h"

#include <algorithm>

#include "draco/core/verif_hooks.h"

namespace sim {

// byz.cc
void ByzEdgebreakerBytes(uint64_t seed, int mode, std::vector<uint8_t> *out);

namespace {
const char *kNames[F_NUM_KINDS] = {"trunc",  "setbyte", "set32", "varint",
                                   "zero",   "dup",     "drop",  "swap",
                                   "splice", "header",  "append", "tamper",
                                   "flipbit", "byz"};

// Besides the boundary values: counts that make a 32-bit product wrap to a
// small number, ceil(2^32 / m) for the multipliers decoders use (3 indices per
// face, 4/8/12 bytes per entry, 5 descriptor bytes per attribute). A guard of
// the form "m * count > remaining" accepts exactly these.
constexpr int kNumSetByte = 14;
constexpr int kNumSet32 = 11;
const uint32_t kSet32[kNumSet32] = {0u,          1u,          0x7FFFFFFFu, 0x80000000u,
                                    0xFFFFFFFFu, 0x00FFFFFFu, 0x55555556u, 0x40000000u,
                                    0x33333334u, 0x20000000u, 0x15555556u};
constexpr int kNumVarint = 11;
const uint64_t kVarint[kNumVarint] = {0ull,          0x7Full,       0x80ull,
                                      1ull << 21,    0x7FFFFFFFull, 0xFFFFFFFFull,
                                      0x55555556ull, 0x40000000ull, 0x33333334ull,
                                      0x20000000ull, 0x15555556ull};

struct Ver {
  int major, minor;
};
const Ver kVersions[] = {{0, 0}, {0, 9}, {1, 0}, {1, 1}, {1, 2},
                         {1, 3}, {1, 4}, {1, 5}, {2, 0}, {2, 1},
                         {2, 2}, {2, 3}, {2, 4}, {3, 0}, {255, 255}};
constexpr int kNumVersions = sizeof(kVersions) / sizeof(kVersions[0]);
constexpr int kHeaderCount = kNumVersions * 4 * 3 * 2;

void EncodeVarintCanonical(uint64_t v, std::vector<uint8_t> *out) {
  do {
    uint8_t b = v & 0x7f;
    v >>= 7;
    if (v) b |= 0x80;
    out->push_back(b);
  } while (v);
}
}  // namespace

const char *FaultKindName(int k) {
  return (k >= 0 && k < F_NUM_KINDS) ? kNames[k] : "?";
}

int FaultKindFromName(const std::string &s) {
  for (int i = 0; i < F_NUM_KINDS; ++i)
    if (s == kNames[i]) return i;
  return -1;
}

Json FaultOp::ToJson() const {
  Json j = Json::Object();
  j["k"] = FaultKindName(kind);
  j["a"] = static_cast<long long>(a);
  if (b) j["b"] = static_cast<long long>(b);
  if (c) j["c"] = static_cast<long long>(c);
  if (d) j["d"] = static_cast<long long>(d);
  if (e) j["e"] = static_cast<long long>(e);
  if (!src.empty()) j["src"] = HexBytes(src.data(), src.size());
  return j;
}

FaultOp FaultOp::FromJson(const Json &j) {
  FaultOp op;
  op.kind = FaultKindFromName(j.get("k").Str());
  op.a = j.get("a").Int();
  op.b = j.get("b").Int();
  op.c = j.get("c").Int();
  op.d = j.get("d").Int();
  op.e = j.get("e").Int();
  if (j.has("src")) UnhexBytes(j.get("src").Str(), &op.src);
  return op;
}

int ApplyFaults(const std::vector<FaultOp> &ops, std::vector<uint8_t> *bytes) {
  int changed = 0;
  for (const FaultOp &op : ops) {
    std::vector<uint8_t> &v = *bytes;
    const size_t len = v.size();
    const std::vector<uint8_t> before = v;
    auto mod = [&](int64_t x) -> size_t {
      if (len == 0) return 0;
      int64_t m = x % static_cast<int64_t>(len);
      if (m < 0) m += len;
      return static_cast<size_t>(m);
    };
    switch (op.kind) {
      case F_TRUNC:
        if (len) v.resize(mod(op.a));
        break;
      case F_SETBYTE: {
        if (!len) break;
        size_t o = mod(op.a);
        uint8_t b = v[o];
        switch (op.b) {
          case 0:
            b ^= 0x01;
            break;
          case 1:
            b ^= 0x80;
            break;
          case 2:
            b = 0x00;
            break;
          case 3:
            b = 0xFF;
            break;
          case 4:
            b = static_cast<uint8_t>(b + 1);
            break;
          case 5:
            b = static_cast<uint8_t>(b - 1);
            break;
          case 6:
            b ^= 0x7F;
            break;
          case 7:
          case 8:
          case 9:
          case 10:
          case 11:
          case 12:
          case 13:
            // Small enumerators: type, method, transform, data type and
            // component count bytes take values 0..7.
            b = static_cast<uint8_t>(op.b - 6);
            break;
          default:
            b = static_cast<uint8_t>(op.c);
            break;
        }
        v[o] = b;
        break;
      }
      case F_SET32: {
        if (!len) break;
        size_t o = mod(op.a);
        uint32_t val = (op.b >= 0 && op.b < kNumSet32) ? kSet32[op.b]
                                                       : static_cast<uint32_t>(op.c);
        for (int i = 0; i < 4 && o + i < len; ++i)
          v[o + i] = static_cast<uint8_t>(val >> (8 * i));
        break;
      }
      case F_VARINT: {
        if (!len) break;
        size_t o = mod(op.a);
        // Length of the varint that starts here.
        size_t l = 0;
        while (o + l < len && l < 10) {
          ++l;
          if (!(v[o + l - 1] & 0x80)) break;
        }
        std::vector<uint8_t> enc;
        if (op.b >= 0 && op.b < kNumVarint) {
          EncodeVarintCanonical(kVarint[op.b], &enc);
        } else {
          // 10-byte overlong encoding of a large value.
          for (int i = 0; i < 9; ++i) enc.push_back(0xFF);
          enc.push_back(0x01);
        }
        if (op.c == 0) {
          // In place: keep the length l (pad with continuation bytes, or cut).
          std::vector<uint8_t> fit(l, 0x80);
          for (size_t i = 0; i < l; ++i) {
            uint8_t payload = i < enc.size() ? (enc[i] & 0x7f) : 0;
            fit[i] = payload | (i + 1 < l ? 0x80 : 0x00);
          }
          for (size_t i = 0; i < l; ++i) v[o + i] = fit[i];
        } else {
          v.erase(v.begin() + o, v.begin() + o + l);
          v.insert(v.begin() + o, enc.begin(), enc.end());
        }
        break;
      }
      case F_ZERO: {
        if (!len) break;
        size_t o = mod(op.a);
        size_t n = static_cast<size_t>(std::max<int64_t>(1, op.b));
        for (size_t i = o; i < len && i < o + n; ++i) v[i] = 0;
        break;
      }
      case F_DUP: {
        if (!len) break;
        size_t o = mod(op.a);
        size_t n = std::min<size_t>(static_cast<size_t>(std::max<int64_t>(1, op.b)),
                                    len - o);
        std::vector<uint8_t> seg(v.begin() + o, v.begin() + o + n);
        v.insert(v.begin() + o + n, seg.begin(), seg.end());
        break;
      }
      case F_DROP: {
        if (!len) break;
        size_t o = mod(op.a);
        size_t n = std::min<size_t>(static_cast<size_t>(std::max<int64_t>(1, op.b)),
                                    len - o);
        v.erase(v.begin() + o, v.begin() + o + n);
        break;
      }
      case F_SWAP: {
        if (!len) break;
        size_t o1 = mod(op.a), o2 = mod(op.b);
        if (o1 > o2) std::swap(o1, o2);
        size_t n = static_cast<size_t>(std::max<int64_t>(1, op.c));
        n = std::min(n, o2 - o1);
        n = std::min(n, len - o2);
        for (size_t i = 0; i < n; ++i) std::swap(v[o1 + i], v[o2 + i]);
        break;
      }
      case F_SPLICE: {
        if (!len || op.src.empty()) break;
        size_t o = mod(op.a);
        v.resize(o);
        if (o < op.src.size())
          v.insert(v.end(), op.src.begin() + o, op.src.end());
        break;
      }
      case F_HEADER: {
        if (len < 11) break;
        if (op.a >= 0) v[5] = static_cast<uint8_t>(op.a);
        if (op.b >= 0) v[6] = static_cast<uint8_t>(op.b);
        if (op.c >= 0) v[7] = static_cast<uint8_t>(op.c);
        if (op.d >= 0) v[8] = static_cast<uint8_t>(op.d);
        if (op.e >= 0) {
          v[9] = static_cast<uint8_t>(op.e & 0xff);
          v[10] = static_cast<uint8_t>((op.e >> 8) & 0xff);
        }
        break;
      }
      case F_APPEND: {
        uint64_t s = static_cast<uint64_t>(op.b);
        for (int64_t i = 0; i < op.a; ++i)
          v.push_back(static_cast<uint8_t>(splitmix64(&s)));
        break;
      }
      case F_BYZ:
        ByzEdgebreakerBytes(static_cast<uint64_t>(op.a), static_cast<int>(op.b), &v);
        break;
      case F_FLIPBIT: {
        if (!len) break;
        int64_t bits = static_cast<int64_t>(len) * 8;
        int64_t m = op.a % bits;
        if (m < 0) m += bits;
        v[m / 8] ^= static_cast<uint8_t>(1u << (m % 8));
        break;
      }
      default:
        break;
    }
    if (v != before) ++changed;
  }
  return changed;
}

EnumCounts EnumCount(size_t len) {
  EnumCounts c;
  c.trunc = len;
  c.setbyte = len * kNumSetByte;
  c.set32 = len * kNumSet32;
  c.varint = len * (kNumVarint + 1) * 2;
  c.header = len >= 11 ? kHeaderCount : 0;
  return c;
}

FaultOp EnumOp(size_t len, uint64_t j) {
  EnumCounts c = EnumCount(len);
  FaultOp op;
  if (j < c.trunc) {
    op.kind = F_TRUNC;
    op.a = static_cast<int64_t>(j);
    return op;
  }
  j -= c.trunc;
  if (j < c.setbyte) {
    op.kind = F_SETBYTE;
    op.a = static_cast<int64_t>(j / kNumSetByte);
    op.b = static_cast<int64_t>(j % kNumSetByte);
    return op;
  }
  j -= c.setbyte;
  if (j < c.set32) {
    op.kind = F_SET32;
    op.a = static_cast<int64_t>(j / kNumSet32);
    op.b = static_cast<int64_t>(j % kNumSet32);
    return op;
  }
  j -= c.set32;
  if (j < c.varint) {
    op.kind = F_VARINT;
    const uint64_t per = (kNumVarint + 1) * 2;
    op.a = static_cast<int64_t>(j / per);
    op.b = static_cast<int64_t>((j % per) / 2);
    op.c = static_cast<int64_t>(j % 2);
    return op;
  }
  j -= c.varint;
  op.kind = F_HEADER;
  int flags = static_cast<int>(j % 2);
  j /= 2;
  int type = static_cast<int>(j % 3);
  j /= 3;
  int method = static_cast<int>(j % 4);
  j /= 4;
  const Ver &ver = kVersions[j % kNumVersions];
  op.a = ver.major;
  op.b = ver.minor;
  op.c = type;  // 0 point cloud, 1 mesh, 2 invalid
  op.d = method;
  op.e = flags ? 0x8000 : 0;
  return op;
}

std::vector<FaultOp> RandomFaultPlan(
    Rng rng, size_t len,
    const std::vector<const std::vector<uint8_t> *> &others) {
  std::vector<FaultOp> ops;
  Rng r = rng.Fork("faultplan");
  // Swarm: a random subset of kinds is enabled for this plan.
  uint32_t enabled = static_cast<uint32_t>(r.Next());
  if (!(enabled & 0x7ff)) enabled |= 2;
  int n = static_cast<int>(r.Range(1, 8));
  if (r.Chance(1, 2)) n = static_cast<int>(r.Range(1, 3));
  for (int i = 0; i < n; ++i) {
    FaultOp op;
    int k;
    int guard = 0;
    do {
      k = static_cast<int>(r.Below(11));
    } while (!((enabled >> k) & 1) && ++guard < 64);
    const int64_t off = static_cast<int64_t>(r.Below(len ? len : 1));
    switch (k) {
      case 0:
        op.kind = F_TRUNC;
        op.a = off;
        // Truncation near the end is the interesting torn write.
        if (r.Chance(1, 2) && len > 16)
          op.a = static_cast<int64_t>(len - 1 - r.Below(16));
        break;
      case 1:
        op.kind = F_SETBYTE;
        op.a = off;
        op.b = 14;
        op.c = static_cast<int64_t>(r.Below(256));
        break;
      case 2:
        op.kind = F_SET32;
        op.a = off;
        op.b = static_cast<int64_t>(r.Below(kNumSet32 + 1));
        op.c = static_cast<int64_t>(r.Next() & 0xffffffffu);
        break;
      case 3:
        op.kind = F_VARINT;
        op.a = off;
        op.b = static_cast<int64_t>(r.Below(kNumVarint + 1));
        op.c = static_cast<int64_t>(r.Below(2));
        break;
      case 4:
        op.kind = F_ZERO;
        op.a = off;
        op.b = static_cast<int64_t>(r.Range(1, 64));
        break;
      case 5:
        op.kind = F_DUP;
        op.a = off;
        op.b = static_cast<int64_t>(r.Range(1, 64));
        break;
      case 6:
        op.kind = F_DROP;
        op.a = off;
        op.b = static_cast<int64_t>(r.Range(1, 32));
        break;
      case 7:
        op.kind = F_SWAP;
        op.a = off;
        op.b = static_cast<int64_t>(r.Below(len ? len : 1));
        op.c = static_cast<int64_t>(r.Range(1, 32));
        break;
      case 8:
        if (others.empty()) {
          op.kind = F_FLIPBIT;
          op.a = static_cast<int64_t>(r.Below(len ? len * 8 : 1));
        } else {
          op.kind = F_SPLICE;
          op.a = off;
          op.b = static_cast<int64_t>(r.Below(others.size()));
          op.src = *others[op.b];
        }
        break;
      case 9: {
        op.kind = F_HEADER;
        const Ver &ver = kVersions[r.Below(kNumVersions)];
        op.a = r.Chance(1, 2) ? ver.major : -1;
        op.b = op.a >= 0 ? ver.minor : -1;
        op.c = r.Chance(1, 3) ? static_cast<int64_t>(r.Below(3)) : -1;
        op.d = r.Chance(1, 2) ? static_cast<int64_t>(r.Below(4)) : -1;
        op.e = r.Chance(1, 4) ? (r.Chance(1, 2) ? 0x8000 : 0) : -1;
        break;
      }
      default:
        op.kind = F_FLIPBIT;
        op.a = static_cast<int64_t>(r.Below(len ? len * 8 : 1));
        break;
    }
    ops.push_back(op);
  }
  if (r.Chance(1, 8)) {
    FaultOp op;
    op.kind = F_APPEND;
    op.a = static_cast<int64_t>(r.Range(1, 64));
    op.b = static_cast<int64_t>(r.Next() >> 2);
    ops.push_back(op);
  }
  return ops;
}

// ------------------------------------------------------------ tamper -----
namespace {
int g_tamper_mode = 0;  // 0 off, 1 count, 2 apply
std::vector<TamperEvent> *g_tamper_log = nullptr;
int64_t g_tamper_event = -1;
int g_tamper_variant = 0;
int64_t g_tamper_counter = 0;
bool g_tamper_hit = false;
std::vector<uint32_t> g_tamper_symbols;
const uint64_t kTraversalSymbols[5] = {0, 1, 3, 5, 7};
}  // namespace

void TamperBeginCount(std::vector<TamperEvent> *log) {
  g_tamper_mode = 1;
  g_tamper_log = log;
  g_tamper_counter = 0;
  g_tamper_hit = false;
}

void TamperBeginApply(int64_t event, int variant) {
  g_tamper_mode = 2;
  g_tamper_event = event;
  g_tamper_variant = variant;
  g_tamper_counter = 0;
  g_tamper_hit = false;
}

bool TamperEnd() {
  g_tamper_mode = 0;
  g_tamper_log = nullptr;
  return g_tamper_hit;
}

}  // namespace sim

extern "C" void draco_verif_tamper(int site, uint64_t *value, int *nbits) {
  using namespace sim;
  if (g_tamper_mode == 0) return;
  const int64_t k = g_tamper_counter++;
  if (g_tamper_mode == 1) {
    if (g_tamper_log) g_tamper_log->push_back(TamperEvent{site, *nbits, *value});
    return;
  }
  if (k != g_tamper_event) return;
  const uint64_t old = *value;
  const int n = *nbits;
  const uint64_t mask = n >= 64 ? ~0ull : ((1ull << n) - 1);
  if (site == DRACO_VERIF_SITE_TRAVERSAL_SYMBOL) {
    int pos = 0;
    for (int i = 0; i < 5; ++i)
      if (kTraversalSymbols[i] == old) pos = i;
    *value = kTraversalSymbols[(pos + 1 + g_tamper_variant) % 5];
  } else if (n == 1) {
    if (g_tamper_variant == 0) *value = old ^ 1;
  } else {
    switch (g_tamper_variant) {
      case 0:
        *value = 0;
        break;
      case 1:
        *value = mask;
        break;
      case 2:
        *value = (old ^ 1) & mask;
        break;
      default:
        *value = (old + 1) & mask;
        break;
    }
  }
  if (*value != old) g_tamper_hit = true;
}

extern "C" const uint32_t *draco_verif_tamper_symbols(const uint32_t *symbols,
                                                      int num_values,
                                                      int num_components) {
  using namespace sim;
  (void)num_components;
  if (g_tamper_mode == 0 || num_values <= 0) return symbols;
  const int64_t first = g_tamper_counter;
  g_tamper_counter += num_values;
  if (g_tamper_mode == 1) {
    if (g_tamper_log)
      for (int i = 0; i < num_values; ++i)
        g_tamper_log->push_back(
            TamperEvent{DRACO_VERIF_SITE_SYMBOLS, 32, symbols[i]});
    return symbols;
  }
  if (g_tamper_event < first || g_tamper_event >= first + num_values)
    return symbols;
  g_tamper_symbols.assign(symbols, symbols + num_values);
  const size_t i = static_cast<size_t>(g_tamper_event - first);
  uint32_t mx = 0;
  for (int k = 0; k < num_values; ++k) mx = std::max(mx, symbols[k]);
  int bl = 0;
  while (bl < 32 && (mx >> bl)) ++bl;
  const uint32_t old = symbols[i];
  uint32_t nv = old;
  switch (g_tamper_variant) {
    case 0:
      nv = 0;
      break;
    case 1:
      nv = old + 1;
      break;
    case 2:
      nv = mx + 1;
      break;
    default:
      nv = bl >= 32 ? 0xffffffffu : ((1u << bl) - 1);
      break;
  }
  // Stay inside what EncodeSymbols itself supports (it sizes tables by the
  // largest symbol): the tampered writer must produce a well-formed block.
  if (mx >= (1u << 22)) return symbols;
  const uint32_t cap = 2 * mx + 1;
  if (nv > cap) nv = cap;
  g_tamper_symbols[i] = nv;
  if (nv != old) g_tamper_hit = true;
  return g_tamper_symbols.data();
}
