// Canaries for the sched engine, compiled with the same -fsanitize=thread
// instrumentation as libdraco: a racy static cache (must be reported as a data
// race on every run) and a guarded function-local static (must stay silent).
#include <vector>

namespace {
int g_canary_cache = 0;
int ExpensiveInit() {
  std::vector<int> v(64, 3);
  int s = 0;
  for (int x : v) s += x;
  return s;
}
}  // namespace

extern "C" int sim_canary_touch(int v) {
  g_canary_cache += v;
  return g_canary_cache;
}

extern "C" int sim_canary_guarded() {
  static const int table = ExpensiveInit();
  return table;
}
