// Ordered digest of a decoded geometry and the C03 structural oracle. Both use
// public accessors only.
#ifndef VERIF_SIM_GEOM_H_
#define VERIF_SIM_GEOM_H_

#include <string>

#include "common.h"
#include "draco/mesh/mesh.h"
#include "draco/point_cloud/point_cloud.h"

namespace sim {

// Digest covering: num points, faces in order, and per attribute (in unique id
// order, ties by index) descriptor, point->value map and value bytes, plus
// metadata. |mesh| may be null.
uint64_t GeometryDigest(const draco::PointCloud &pc, const draco::Mesh *mesh);

// C03 oracle. Returns empty string when the geometry is structurally valid,
// else the name of the first failed clause (stable identifier) with details in
// |detail|. When |touch| is set every value is also read through the public
// accessors (so that ASan sees the accesses).
std::string ValidateGeometry(const draco::PointCloud &pc,
                             const draco::Mesh *mesh, bool touch,
                             std::string *detail);

}  // namespace sim

#endif  // VERIF_SIM_GEOM_H_
