#include "chan.h"

#include <dirent.h>
#include <fcntl.h>
#include <sys/stat.h>
#include <sys/wait.h>
#include <unistd.h>

#include <algorithm>
#include <exception>
#include <map>
#include <new>
#include <set>
#include <stdexcept>

#include "draco/animation/keyframe_animation.h"
#include "draco/animation/keyframe_animation_decoder.h"
#include "draco/compression/decode.h"
#include "draco/core/decoder_buffer.h"
#include "geom.h"
#include "medium.h"
#include "pool.h"
#include "steps.h"

extern "C" void draco_verif_declare(int kind, uint64_t n) {
  sim::AllocDeclare(kind, n);
}

extern "C" {
int sim_canary_heap_overflow(int n);
int sim_canary_unjustified_alloc();
int sim_canary_stable_loop();
int sim_canary_long_finite_loop();
int sim_canary_declared_alloc();
uint64_t sim_canary_uninit_read();
}

namespace sim {

// byz.cc
uint64_t ByzEnumTotal();

const char *EntryName(int e) {
  static const char *n[E_NUM] = {"GetEncodedGeometryType",
                                 "DecodeMeshFromBuffer",
                                 "DecodePointCloudFromBuffer",
                                 "DecodeBufferToGeometry(Mesh)",
                                 "DecodeBufferToGeometry(PointCloud)",
                                 "Decode*FromBuffer+SkipAttributeTransform",
                                 "KeyframeAnimationDecoder::Decode",
                                 "DecodeBufferToGeometry x2 (same object)"};
  return (e >= 0 && e < E_NUM) ? n[e] : "?";
}

const char *OutcomeName(int o) {
  static const char *n[O_NUM] = {"ok",
                                 "error_status",
                                 "tolerated_alloc_failure",
                                 "refused_outside_bound",
                                 "exception",
                                 "undecided_budget",
                                 "nontermination_recurrence"};
  return (o >= 0 && o < O_NUM) ? n[o] : "?";
}

Json CallResult::ToJson() const {
  Json j = Json::Object();
  j["entry"] = EntryName(entry);
  j["outcome"] = OutcomeName(outcome);
  j["status_code"] = status_code;
  j["status_msg"] = status_msg;
  j["digest"] = Hex64(digest);
  j["steps"] = static_cast<unsigned long long>(steps);
  j["remaining"] = static_cast<long long>(remaining);
  j["alloc_count"] = static_cast<unsigned long long>(alloc.count);
  j["alloc_peak"] = static_cast<unsigned long long>(alloc.peak);
  j["alloc_largest"] = static_cast<unsigned long long>(alloc.largest);
  if (alloc.viol_kind) {
    j["bound_violation"] = alloc.viol_kind == 1 ? "single_request" : "peak";
    j["viol_size"] = static_cast<unsigned long long>(alloc.viol_size);
    j["viol_live"] = static_cast<unsigned long long>(alloc.viol_live);
    j["viol_u"] = static_cast<unsigned long long>(alloc.viol_u);
  }
  Json d = Json::Array();
  for (int i = 0; i < 4; ++i) d.push(static_cast<unsigned long long>(declared[i]));
  j["declared"] = d;
  if (!exception_what.empty()) j["exception"] = exception_what;
  if (!c03_clause.empty()) {
    j["c03_clause"] = c03_clause;
    j["c03_detail"] = c03_detail;
  }
  if (input_modified) j["input_modified"] = true;
  return j;
}

// ---------------------------------------------------------- RunEntry -----
namespace {

Medium g_medium;
std::unique_ptr<draco::Mesh> g_mesh;
std::unique_ptr<draco::PointCloud> g_pc;

__attribute__((noinline)) void DoCall(int entry, const char *data, size_t len,
                                      const CallConfig &cfg, CallResult *r) {
  draco::DecoderBuffer buffer;
  buffer.Init(data, len);
  auto set_status = [&](const draco::Status &st) {
    r->status_code = static_cast<int>(st.code());
    r->status_msg = st.error_msg_string();
    r->outcome = st.ok() ? O_OK : O_ERROR;
  };
  auto apply_skip = [&](draco::Decoder *dec) {
    for (int t = 0; t < 5; ++t)
      if (cfg.skip_mask & (1 << t))
        dec->SetSkipAttributeTransform(
            static_cast<draco::GeometryAttribute::Type>(t));
  };
  switch (entry) {
    case E_TYPE: {
      auto st = draco::Decoder::GetEncodedGeometryType(&buffer);
      set_status(st.status());
      if (st.ok()) r->digest = static_cast<uint64_t>(st.value()) + 1;
      break;
    }
    case E_MESH: {
      draco::Decoder dec;
      auto st = dec.DecodeMeshFromBuffer(&buffer);
      set_status(st.status());
      if (st.ok()) g_mesh = std::move(st).value();
      break;
    }
    case E_PC: {
      draco::Decoder dec;
      auto st = dec.DecodePointCloudFromBuffer(&buffer);
      set_status(st.status());
      if (st.ok()) g_pc = std::move(st).value();
      break;
    }
    case E_TO_MESH: {
      draco::Decoder dec;
      g_mesh.reset(new draco::Mesh());
      set_status(dec.DecodeBufferToGeometry(&buffer, g_mesh.get()));
      break;
    }
    case E_TO_PC: {
      draco::Decoder dec;
      g_pc.reset(new draco::PointCloud());
      set_status(dec.DecodeBufferToGeometry(&buffer, g_pc.get()));
      break;
    }
    case E_SKIP: {
      draco::DecoderBuffer probe;
      probe.Init(data, len);
      auto ty = draco::Decoder::GetEncodedGeometryType(&probe);
      draco::Decoder dec;
      apply_skip(&dec);
      if (ty.ok() && ty.value() == draco::TRIANGULAR_MESH) {
        auto st = dec.DecodeMeshFromBuffer(&buffer);
        set_status(st.status());
        if (st.ok()) g_mesh = std::move(st).value();
      } else {
        auto st = dec.DecodePointCloudFromBuffer(&buffer);
        set_status(st.status());
        if (st.ok()) g_pc = std::move(st).value();
      }
      break;
    }
    case E_ANIM: {
      draco::KeyframeAnimationDecoder dec;
      draco::DecoderOptions opts;
      draco::KeyframeAnimation *anim = new draco::KeyframeAnimation();
      g_pc.reset(anim);
      set_status(dec.Decode(opts, &buffer, anim));
      break;
    }
    case E_TWICE: {
      // The output geometry is not required to be empty: a second decode into
      // the same object appends. The first status is ignored (it may fail
      // half-way and leave the object partially filled).
      draco::DecoderBuffer probe;
      probe.Init(data, len);
      auto ty = draco::Decoder::GetEncodedGeometryType(&probe);
      const bool mesh = ty.ok() && ty.value() == draco::TRIANGULAR_MESH;
      if (mesh) {
        g_mesh.reset(new draco::Mesh());
      } else {
        g_pc.reset(new draco::PointCloud());
      }
      for (int k = 0; k < 2; ++k) {
        draco::DecoderBuffer b2;
        b2.Init(data, len);
        draco::Decoder dec;
        if (mesh) {
          set_status(dec.DecodeBufferToGeometry(&b2, g_mesh.get()));
        } else {
          set_status(dec.DecodeBufferToGeometry(&b2, g_pc.get()));
        }
        if (r->outcome == O_OK) r->remaining = b2.remaining_size();
      }
      return;
    }
    case 101:
      r->digest = static_cast<uint64_t>(sim_canary_heap_overflow(16));
      break;
    case 102:
      r->digest = static_cast<uint64_t>(sim_canary_unjustified_alloc());
      break;
    case 103:
      r->digest = static_cast<uint64_t>(sim_canary_stable_loop());
      break;
    case 104:
      r->digest = static_cast<uint64_t>(sim_canary_long_finite_loop());
      break;
    case 105:
      r->digest = static_cast<uint64_t>(sim_canary_declared_alloc());
      break;
    default:
      break;
  }
  if (r->outcome == O_OK) r->remaining = buffer.remaining_size();
}

}  // namespace

CallResult RunEntry(int entry, const std::vector<uint8_t> &bytes,
                    const CallConfig &cfg) {
  CallResult r;
  r.entry = entry;
  g_mesh.reset();
  g_pc.reset();
  const char *data = g_medium.Place(bytes.data(), bytes.size(), cfg.mirrored);
  AllocConfig ac;
  ac.active = true;
  ac.budget = cfg.budget_bytes;
  ac.bound = true;
  ac.a1 = cfg.a1;
  ac.k1 = cfg.k1;
  ac.a2 = cfg.a2;
  ac.k2 = cfg.k2;
  ac.input_len = bytes.size();
  ac.perturb = cfg.perturb;
  ac.env_seed = cfg.env_seed;
  StepsConfig sc;
  sc.budget = cfg.step_budget;
  sc.lasso = cfg.lasso;
  sc.lasso_steps = cfg.lasso_steps;
  sc.lasso_visits = cfg.lasso_visits;
  char stack_marker;
  sc.stack_base = &stack_marker;
  PoolSetTag(1);
  AllocBegin(ac);
  StepsArm(sc);
  const int v = sigsetjmp(g_steps_jmp, 0);
  if (v == 0) {
    bool refused = false;
    try {
      StepsStart();
      DoCall(entry, data, bytes.size(), cfg, &r);
      StepsStop();
    } catch (const std::bad_alloc &) {
      StepsStop();
      refused = true;
    } catch (const std::length_error &e) {
      StepsStop();
      // A container constructor refusing a size is the same event as the
      // allocator refusing it.
      refused = true;
      r.exception_what = e.what();
    } catch (const std::exception &e) {
      StepsStop();
      r.outcome = O_EXCEPTION;
      r.exception_what = e.what();
    } catch (...) {
      StepsStop();
      r.outcome = O_EXCEPTION;
      r.exception_what = "unknown exception";
    }
    r.alloc = AllocGetStats();
    AllocGetDeclared(r.declared);
    if (refused) {
      if (r.alloc.refused_outside) {
        r.outcome = O_REFUSED_OUTSIDE;
      } else if (r.alloc.refused_inside || !r.exception_what.empty()) {
        r.outcome = O_TOLERATED_ALLOC;
      } else {
        // bad_alloc that the simulated allocator did not cause.
        r.outcome = O_EXCEPTION;
        r.exception_what = "std::bad_alloc without a refusal";
      }
      g_mesh.reset();
      g_pc.reset();
    }
    r.steps = g_steps;
    AllocEnd(false);
  } else {
    r.outcome = v == STEPS_RECURRENCE ? O_RECURRENCE : O_UNDECIDED;
    r.alloc = AllocGetStats();
    AllocGetDeclared(r.declared);
    r.steps = g_steps;
    r.last_pc = StepsLastPc();
    {
      void *bt[24];
      const int nb = StepsLastBacktrace(bt, 24);
      r.n_alloc_pcs = 0;
      for (int i = 0; i < nb && r.n_alloc_pcs < 12; ++i)
        r.loop_pcs[r.n_alloc_pcs++] = reinterpret_cast<uintptr_t>(bt[i]);
      r.n_loop_pcs = r.n_alloc_pcs;
    }
    // The call was abandoned: its objects are leaked, free them wholesale.
    (void)g_mesh.release();
    (void)g_pc.release();
    AllocEnd(true);
    // Strings of |r| that were assigned inside the abandoned call lived in the
    // epoch that has just been freed wholesale: forget them without freeing.
    new (&r.status_msg) std::string();
    new (&r.exception_what) std::string();
    r.status_code = 0;
  }
  r.n_alloc_pcs = 0;
  for (int i = 0; i < r.alloc.viol_nbt && i < 12; ++i)
    r.alloc_pcs[r.n_alloc_pcs++] =
        reinterpret_cast<uintptr_t>(r.alloc.viol_bt[i]);
  if (bytes.size() && memcmp(g_medium.data(), bytes.data(), bytes.size()) != 0)
    r.input_modified = true;
  if (r.outcome == O_OK && entry != E_TYPE) {
    PoolSetTag(2);
    const draco::Mesh *mesh = g_mesh.get();
    const draco::PointCloud *pc = mesh ? mesh : g_pc.get();
    if (pc) {
      r.c03_clause = ValidateGeometry(*pc, mesh, cfg.touch, &r.c03_detail);
      if (r.c03_clause.empty()) r.digest = GeometryDigest(*pc, mesh);
    }
  }
  PoolSetTag(3);
  g_mesh.reset();
  g_pc.reset();
  PoolSetTag(0);
  return r;
}

// --------------------------------------------------------- substrates ----
namespace {

struct Baseline {
  int outcome = 0;
  int status_code = 0;
  uint64_t digest = 0;
  uint64_t steps = 0;
  uint64_t msg_hash = 0;
};

struct Substrate {
  bool is_corpus = false;
  std::string file;  // corpus
  Workload w;        // generated
  std::vector<uint8_t> bytes;
  bool ok = false;
  std::string err;
  std::vector<TamperEvent> events;
  bool enumerate = false;
  bool light = false;  // few random plans (many tiny substrates of one family)
  bool byz_space = false;  // every plan regenerates the stream (F_BYZ)
  bool tamper_enum = false;
  uint64_t n_enum = 0, n_tamper = 0, n_random = 0;
  uint64_t first = 0;  // first run index
  uint64_t total() const { return 1 + n_enum + n_tamper + n_random; }
  Baseline base[E_NUM];
  bool have_base = false;
  bool base_dead = false;  // the un-faulted stream kills the process (dbg build)
  Json Desc() const {
    Json j = Json::Object();
    if (is_corpus) {
      j["kind"] = "corpus";
      j["file"] = file;
    } else {
      j["kind"] = "gen";
      j["w"] = w.ToJson();
    }
    return j;
  }
};

bool LoadCorpusFile(const std::string &repo, const std::string &file,
                    std::vector<uint8_t> *out) {
  std::string s;
  if (!ReadFile(repo + "/testdata/" + file, &s)) return false;
  out->assign(s.begin(), s.end());
  return !out->empty();
}

std::vector<std::string> ListCorpus(const std::string &repo) {
  std::vector<std::string> files;
  DIR *d = opendir((repo + "/testdata").c_str());
  if (!d) return files;
  while (dirent *e = readdir(d)) {
    std::string n = e->d_name;
    if (n.size() > 4 && n.substr(n.size() - 4) == ".drc") files.push_back(n);
  }
  closedir(d);
  std::sort(files.begin(), files.end());
  return files;
}

// Curated S-class workloads: every encoder method x sub-method x {quantized,
// raw} x {no / vertex / corner attributes}.
std::vector<Workload> CuratedWorkloads() {
  std::vector<Workload> out;
  uint64_t gs = 1000;
  // Meshes.
  struct M {
    int method, eb, cc;
  };
  const M ms[] = {{0, -1, 0}, {0, -1, 1}, {1, 0, -1}, {1, 2, -1}};
  for (const M &m : ms) {
    for (int quant = 0; quant < 2; ++quant) {
      for (int att = 0; att < 3; ++att) {
        Workload w;
        w.kind = 0;
        w.topo = static_cast<int>(out.size() % 9);
        w.n = 6 + static_cast<int>(out.size() % 7);
        w.gseed = ++gs;
        AttDesc pos;
        w.atts.push_back(pos);
        if (att >= 1) {
          AttDesc n;
          n.type = draco::GeometryAttribute::NORMAL;
          n.mode = att == 2 ? 1 : 0;
          w.atts.push_back(n);
          AttDesc t;
          t.type = draco::GeometryAttribute::TEX_COORD;
          t.nc = 2;
          t.mode = att == 2 ? 1 : 0;
          w.atts.push_back(t);
          if (out.size() % 2) {
            AttDesc g;
            g.type = draco::GeometryAttribute::GENERIC;
            g.dt = draco::DT_UINT16;
            g.nc = 2;
            g.mode = att == 2 ? 1 : 0;
            w.atts.push_back(g);
          }
        }
        w.method = m.method;
        w.eb_method = m.eb;
        w.compress_conn = m.cc;
        if (quant) {
          w.qb[0] = 11;
          w.qb[1] = 8;
          w.qb[3] = 10;
        }
        w.espeed = w.dspeed = static_cast<int>((out.size() * 3) % 11);
        if (m.method == 1 && w.espeed == 10) w.espeed = w.dspeed = 3;
        if (att >= 1 && quant) {
          // Exercise the specialised predictors.
          w.pred[1] = 6;
          w.pred[3] = 5;
        }
        out.push_back(w);
      }
    }
  }
  // Mixed attribute layouts: a seam-less per-vertex attribute next to a
  // seamed one (several attribute decoders sharing / not sharing connectivity
  // data in the Edgebreaker decoder).
  for (int eb = 0; eb <= 2; eb += 2) {
    for (int variant = 0; variant < 3; ++variant) {
      Workload w;
      w.kind = 0;
      w.topo = variant == 0 ? 3 : (variant == 1 ? 1 : 0);
      w.n = variant == 0 ? 8 : 12;
      w.gseed = ++gs;
      AttDesc pos;
      w.atts.push_back(pos);
      AttDesc g;
      g.type = draco::GeometryAttribute::GENERIC;
      g.dt = draco::DT_INT32;
      g.nc = 1;
      g.mode = 0;
      w.atts.push_back(g);
      AttDesc n;
      n.type = draco::GeometryAttribute::NORMAL;
      n.mode = variant == 2 ? 1 : 2;
      w.atts.push_back(n);
      if (variant == 1) {
        AttDesc t;
        t.type = draco::GeometryAttribute::TEX_COORD;
        t.nc = 2;
        t.mode = 1;
        w.atts.push_back(t);
      }
      w.method = 1;
      w.eb_method = eb;
      w.qb[0] = 11;
      w.qb[1] = 8;
      w.qb[3] = 10;
      w.espeed = w.dspeed = 2 + variant;
      out.push_back(w);
      if (variant == 0) {
        // Same layout without prediction for the seam-less attribute.
        w.gseed = ++gs;
        w.pred[4] = -2;
        w.espeed = w.dspeed = 7;
        out.push_back(w);
        // A closed cube at default speed.
        w.gseed = ++gs;
        w.topo = 9;
        w.n = 12;
        w.pred[4] = -1;
        w.espeed = w.dspeed = 5;
        out.push_back(w);
      }
    }
  }
  // Single-component unsigned integer attributes (wrap transform bounds that
  // are small positive numbers; descriptor bytes of a scalar attribute).
  for (int k = 0; k < 4; ++k) {
    Workload w;
    w.kind = k < 2 ? 0 : 1;
    w.topo = 0;
    w.n = 10 + k;
    w.gseed = ++gs;
    AttDesc pos;
    w.atts.push_back(pos);
    AttDesc g;
    g.type = draco::GeometryAttribute::GENERIC;
    g.dt = (k % 2) ? draco::DT_UINT32 : draco::DT_UINT16;
    g.nc = 1;
    g.mode = 0;
    w.atts.push_back(g);
    w.method = k < 2 ? (k % 2) : 0;
    w.qb[0] = 10;
    w.espeed = w.dspeed = 3 + k;
    out.push_back(w);
  }
  // Point clouds.
  for (int method = 0; method < 2; ++method) {
    for (int quant = 0; quant < 2; ++quant) {
      for (int att = 0; att < 2; ++att) {
        if (method == 1 && !quant) continue;
        Workload w;
        w.kind = 1;
        w.n = 10 + static_cast<int>(out.size() % 9);
        w.gseed = ++gs;
        w.topo = static_cast<int>(out.size() % 3);
        AttDesc pos;
        w.atts.push_back(pos);
        if (att) {
          AttDesc c;
          c.type = draco::GeometryAttribute::COLOR;
          c.dt = draco::DT_UINT8;
          c.nc = 3;
          w.atts.push_back(c);
          AttDesc g;
          g.type = draco::GeometryAttribute::GENERIC;
          g.dt = draco::DT_INT16;
          g.nc = 1;
          w.atts.push_back(g);
        }
        w.method = method;
        if (quant) {
          w.qb[0] = 10;
          w.qb[4] = 8;
        }
        w.espeed = w.dspeed = method == 1 ? static_cast<int>(out.size() % 7) : 5;
        out.push_back(w);
      }
    }
  }
  // Integer-position kd-tree cloud, metadata carriers, animation.
  {
    Workload w;
    w.kind = 1;
    w.n = 12;
    w.gseed = ++gs;
    AttDesc pos;
    pos.dt = draco::DT_UINT16;
    w.atts.push_back(pos);
    w.method = 1;
    out.push_back(w);
  }
  {
    Workload w = out[7];
    w.gseed = ++gs;
    w.meta = 2;
    out.push_back(w);
    // Two metadata blocks for one attribute.
    w.gseed = ++gs;
    w.meta = 3;
    out.push_back(w);
  }
  {
    Workload w;
    w.kind = 2;
    w.n = 8;
    w.gseed = ++gs;
    AttDesc pos;
    w.atts.push_back(pos);
    AttDesc t;
    t.type = draco::GeometryAttribute::GENERIC;
    t.nc = 3;
    w.atts.push_back(t);
    out.push_back(w);
    w.gseed = ++gs;
    w.qb[4] = 10;
    out.push_back(w);
  }
  // Meshes with handles (3x3 and 3x4 torus): the only streams that carry
  // topology split events, i.e. the side channel of the Edgebreaker traversal.
  for (int k = 0; k < 3; ++k) {
    Workload w;
    w.kind = 0;
    w.topo = 1;
    w.n = k == 2 ? 24 : 18;
    w.gseed = ++gs;
    AttDesc pos;
    w.atts.push_back(pos);
    if (k == 2) {
      AttDesc t;
      t.type = draco::GeometryAttribute::TEX_COORD;
      t.nc = 2;
      t.mode = 1;
      w.atts.push_back(t);
    }
    w.method = 1;
    w.eb_method = k == 1 ? 2 : 0;
    w.qb[0] = 10;
    w.qb[3] = 9;
    w.espeed = w.dspeed = k == 1 ? 0 : 5;
    out.push_back(w);
  }
  // Older bitstreams (legacy-writer stub, see work.h): sequential meshes of
  // bitstream 2.1 with 8 / 16 bit raw, and entropy coded indices; pre-2.3
  // kd-tree point clouds (integer and float method).
  for (int k = 0; k < 4; ++k) {
    Workload w;
    w.kind = 0;
    w.topo = 0;
    // k == 3: 24000 faces with a per-face attribute = about 70000 points, the
    // 32-bit raw index layout of bitstreams older than 2.2.
    w.n = k == 1 ? 560 : (k == 3 ? 24000 : 10);
    w.jit = k == 3 ? 0 : 1;
    w.gseed = ++gs;
    AttDesc pos;
    w.atts.push_back(pos);
    AttDesc g;
    g.type = draco::GeometryAttribute::GENERIC;
    g.dt = draco::DT_UINT8;
    g.nc = 1;
    g.mode = k == 3 ? 2 : 0;
    w.atts.push_back(g);
    w.method = 0;
    w.compress_conn = k == 2 ? 1 : 0;
    w.qb[0] = 10;
    w.pred[0] = k == 3 ? 0 : 1;
    w.espeed = w.dspeed = 5;
    w.legacy = 1;
    out.push_back(w);
  }
  for (int k = 0; k < 3; ++k) {
    Workload w;
    w.kind = 1;
    w.topo = 0;
    w.n = 12 + 5 * k;
    w.gseed = ++gs;
    AttDesc pos;
    pos.dt = k == 0 ? draco::DT_UINT16 : (k == 1 ? draco::DT_UINT32 : draco::DT_FLOAT32);
    w.atts.push_back(pos);
    if (k == 1) {
      AttDesc c;
      c.type = draco::GeometryAttribute::COLOR;
      c.dt = draco::DT_UINT8;
      c.nc = 3;
      w.atts.push_back(c);
      AttDesc g;
      g.type = draco::GeometryAttribute::GENERIC;
      g.dt = draco::DT_UINT16;
      g.nc = 1;
      w.atts.push_back(g);
    }
    w.method = 1;
    w.qb[0] = 10;
    w.espeed = w.dspeed = 2 + 3 * k;
    w.legacy = k == 2 ? 3 : 2;
    out.push_back(w);
  }
  // Attributes stored without the built-in compression (ExpertEncoder option):
  // integer values stand verbatim in the stream, so a word-sized fault chooses
  // any symbol the sequential integer decoder will see.
  for (int k = 0; k < 2; ++k) {
    Workload w;
    w.kind = k;
    w.topo = 0;
    w.n = 9 + k;
    w.gseed = ++gs;
    AttDesc pos;
    w.atts.push_back(pos);
    AttDesc g;
    g.type = draco::GeometryAttribute::GENERIC;
    g.dt = draco::DT_INT32;
    g.nc = 1 + k;
    // (Full-range values only without prediction: the encoder's wrap transform
    // computes max - min in int32 and overflows on them - an encoder-side
    // observation outside the claimed properties.)
    g.vals = k == 0 ? 3 : 0;
    w.atts.push_back(g);
    w.expert = 1;
    w.builtin = 0;
    w.method = 0;
    w.qb[0] = 10;
    w.pred[4] = k == 0 ? -2 : 0;
    w.espeed = w.dspeed = 5;
    out.push_back(w);
  }
  // Shallow kd-trees (2 and 4 quantization bits): every leaf is reached after a
  // handful of steps, so an inflated payload point count turns into output
  // growth within the quick step budget (defect #10).
  for (int k = 0; k < 2; ++k) {
    Workload w;
    w.kind = 1;
    w.topo = 1;
    w.n = 4 + 6 * k;
    w.gseed = ++gs;
    AttDesc pos;
    w.atts.push_back(pos);
    w.method = 1;
    w.qb[0] = 2 + 2 * k;
    w.espeed = w.dspeed = 4 - 3 * k;
    w.legacy = 3;
    out.push_back(w);
  }
  // Several attribute decoders with their own connectivity data (speed < 6), a
  // seam-less per-vertex attribute that does not use a mesh prediction scheme
  // next to an attribute with a seam on every edge (three points per face):
  // the ownership fields of the attribute decoders (att_data_id, decoder type,
  // traversal method) can then be exchanged without the stream failing later.
  for (int k = 0; k < 3; ++k) {
    Workload w;
    w.kind = 0;
    w.topo = 9;
    w.n = 12;
    w.gseed = ++gs;
    AttDesc pos;
    w.atts.push_back(pos);
    AttDesc t;
    t.type = draco::GeometryAttribute::TEX_COORD;
    t.nc = 2;
    t.mode = 2;
    AttDesc g;
    g.type = draco::GeometryAttribute::GENERIC;
    g.dt = draco::DT_INT32;
    g.nc = 1;
    g.mode = 0;
    if (k == 2) {
      w.atts.push_back(g);
      w.atts.push_back(t);
    } else {
      w.atts.push_back(t);
      w.atts.push_back(g);
    }
    w.method = 1;
    w.eb_method = k == 1 ? 2 : 0;
    w.qb[0] = 11;
    w.qb[3] = 10;
    w.pred[4] = k == 1 ? -2 : 0;
    w.espeed = w.dspeed = 3 + k;
    out.push_back(w);
  }
  // Meshes with integer positions (no quantization transform data between the
  // position descriptor and the other attributes): Edgebreaker with geometric
  // normal prediction, Edgebreaker with seamed tex coords, sequential.
  for (int k = 0; k < 4; ++k) {
    Workload w;
    w.kind = 0;
    w.topo = k == 1 ? 3 : 0;
    // k == 3: a regular grid; its residuals are all equal, so the positions go
    // through the raw symbol scheme, whose rANS block is length-prefixed: a
    // wrong value count there leaves the rest of the stream aligned.
    w.n = k == 3 ? 40 : 12;
    w.jit = k == 3 ? 0 : 1;
    w.gseed = ++gs;
    AttDesc pos;
    pos.dt = k == 1 ? draco::DT_INT16 : draco::DT_INT32;
    w.atts.push_back(pos);
    AttDesc a;
    a.type = k == 1 ? draco::GeometryAttribute::TEX_COORD
                    : draco::GeometryAttribute::NORMAL;
    a.nc = k == 1 ? 2 : 3;
    a.mode = k == 1 ? 1 : 0;
    w.atts.push_back(a);
    w.method = k == 2 ? 0 : 1;
    w.qb[1] = 8;
    w.qb[3] = 10;
    w.pred[1] = 6;
    w.pred[3] = 5;
    w.espeed = w.dspeed = (k == 0 || k == 3) ? 3 : 1;
    out.push_back(w);
  }
  // Deprecated predictive Edgebreaker traversal coding (writer stub
  // legacy_eb.cc): open grid with per-vertex attributes, torus (split events),
  // several components with a seamed attribute.
  for (int k = 0; k < 3; ++k) {
    Workload w;
    w.kind = 0;
    w.topo = k == 0 ? 0 : (k == 1 ? 1 : 2);
    w.n = k == 1 ? 18 : 14;
    w.gseed = ++gs;
    AttDesc pos;
    w.atts.push_back(pos);
    if (k != 1) {
      AttDesc n;
      n.type = draco::GeometryAttribute::NORMAL;
      n.mode = k == 2 ? 1 : 0;
      w.atts.push_back(n);
    }
    w.method = 1;
    w.qb[0] = 11;
    w.qb[1] = 8;
    w.espeed = w.dspeed = 3 + k;
    w.legacy = 4;
    out.push_back(w);
  }
  return out;
}

struct Tier {
  uint64_t enum_max_len;    // full single-site enumeration up to this length
  uint64_t sample_enum;     // sampled enumeration for longer streams
  uint64_t random_small;    // seeded multi-site plans per small substrate
  uint64_t random_large;    // ... per large substrate
  int gen_s, gen_m, gen_l;  // seed-dependent generated substrates
  int byz = 0;              // Byzantine Edgebreaker writer instances
  uint64_t byz_space = 0;   // plans that replace the stream by a fresh instance
  uint64_t tamper_max_events;
  uint64_t tamper_sample;
  uint64_t corpus_max_len;  // corpus files above this are skipped
  uint64_t budget_bytes;
  uint64_t step_min, step_mult, step_cap;
};

Tier TierConfig(const std::string &tier) {
  Tier t;
  if (tier == "thorough") {
    t.enum_max_len = 4096;
    t.sample_enum = 4096;
    t.random_small = 6000;
    t.random_large = 3000;
    t.gen_s = 400;
    t.gen_m = 160;
    t.gen_l = 12;
    t.byz = 2500;
    t.byz_space = 6000000;
    t.tamper_max_events = 6000;
    t.tamper_sample = 2000;
    t.corpus_max_len = 1u << 20;
    t.budget_bytes = 256ull << 20;
    t.step_min = 200000000ull;
    t.step_mult = 10000;
    t.step_cap = 4000000000ull;
  } else if (tier == "smoke") {
    t.enum_max_len = 256;
    t.sample_enum = 64;
    t.random_small = 20;
    t.random_large = 10;
    t.gen_s = 2;
    t.gen_m = 1;
    t.gen_l = 0;
    t.byz = 4;
    t.byz_space = 2000;
    t.tamper_max_events = 300;
    t.tamper_sample = 50;
    t.corpus_max_len = 4096;
    t.budget_bytes = 64ull << 20;
    t.step_min = 20000000ull;
    t.step_mult = 1000;
    t.step_cap = 200000000ull;
  } else {
    t.enum_max_len = 560;
    t.sample_enum = 1200;
    t.random_small = 700;
    t.random_large = 300;
    t.gen_s = 8;
    t.gen_m = 4;
    t.gen_l = 0;
    t.byz = 120;
    t.byz_space = 700000;
    t.tamper_max_events = 1500;
    t.tamper_sample = 400;
    t.corpus_max_len = 16384;
    // Above A2 + K2*U of a small stream, so that a creeping live peak reaches
    // the C18 bound before the budget refuses it.
    t.budget_bytes = 40ull << 20;
    // A few hundred runs per batch exhaust the budget (undecided); 10e6 steps
    // ended runs that were still growing an output vector towards the C18
    // bound (defect #10 needed 58e6), so the patience is 80e6.
    t.step_min = 80000000ull;
    t.step_mult = 500;
    t.step_cap = 400000000ull;
  }
  return t;
}

struct Plan {
  Json sub;  // substrate descriptor
  std::vector<FaultOp> faults;
  int entries = 0;  // bit mask
  int skip_mask = 0;
  bool mirrored = false;
  bool frozen = false;  // use |bytes| as given
  std::vector<uint8_t> bytes;
  Json ToJson(bool with_bytes) const {
    Json j = Json::Object();
    j["engine"] = "chan";
    j["sub"] = sub;
    Json f = Json::Array();
    for (const FaultOp &op : faults) f.push(op.ToJson());
    j["faults"] = f;
    j["entries"] = entries;
    j["skip"] = skip_mask;
    j["mirror"] = mirrored ? 1 : 0;
    if (with_bytes) {
      j["frozen"] = frozen ? 1 : 0;
      j["bytes"] = HexBytes(bytes.data(), bytes.size());
    }
    return j;
  }
  static Plan FromJson(const Json &j) {
    Plan p;
    p.sub = j.get("sub");
    const Json &f = j.get("faults");
    for (size_t i = 0; i < f.size(); ++i)
      p.faults.push_back(FaultOp::FromJson(f.at(i)));
    p.entries = static_cast<int>(j.get("entries").Int());
    p.skip_mask = static_cast<int>(j.get("skip").Int());
    p.mirrored = j.get("mirror").Int() != 0;
    p.frozen = j.get("frozen").Int() != 0;
    if (j.has("bytes")) UnhexBytes(j.get("bytes").Str(), &p.bytes);
    return p;
  }
};

// Encodes a generated substrate, optionally with a tamper op. Returns false if
// the encoder rejected it.
bool EncodeSubstrate(const Workload &w, const FaultOp *tamper,
                     std::vector<uint8_t> *out, std::vector<TamperEvent> *events,
                     bool *tamper_hit, std::string *err) {
  std::unique_ptr<draco::PointCloud> g = BuildGeometry(w);
  if (!g) {
    if (err) *err = "geometry build failed";
    return false;
  }
  if (!tamper) {
    if (events) TamperBeginCount(events);
    bool ok = EncodeGeometry(w, *g, out, err);
    TamperEnd();
    return ok;
  }
  // A tampered writer is contained as well: memory budget, step budget.
  AllocConfig ac;
  ac.active = true;
  ac.budget = 512ull << 20;
  StepsConfig sc;
  sc.budget = 2000000000ull;
  sc.lasso = false;
  AllocBegin(ac);
  StepsArm(sc);
  bool ok = false;
  const int v = sigsetjmp(g_steps_jmp, 0);
  if (v == 0) {
    try {
      TamperBeginApply(tamper->a, static_cast<int>(tamper->b));
      StepsStart();
      ok = EncodeGeometry(w, *g, out, err);
      StepsStop();
    } catch (const std::exception &e) {
      StepsStop();
      ok = false;
      if (err) *err = std::string("writer exception: ") + e.what();
    }
    bool hit = TamperEnd();
    if (tamper_hit) *tamper_hit = hit;
    AllocEnd(false);
  } else {
    TamperEnd();
    ok = false;
    if (err) *err = "writer exceeded its step budget";
    AllocEnd(true);
  }
  return ok;
}

class Batch {
 public:
  Batch(const ChanOptions &opt) : opt_(opt), tier_(TierConfig(opt.tier)) {}

  void BuildSubstrates() {
    if (built_) return;
    built_ = true;
    // Corpus.
    for (const std::string &f : ListCorpus(opt_.repo)) {
      Substrate s;
      s.is_corpus = true;
      s.file = f;
      s.ok = LoadCorpusFile(opt_.repo, f, &s.bytes);
      if (!s.ok) {
        skipped_.push_back(f);
        continue;
      }
      if (s.bytes.size() > tier_.corpus_max_len) {
        skipped_.push_back(f + " (too large for tier)");
        continue;
      }
      subs_.push_back(std::move(s));
    }
    // Curated + seeded generated.
    std::vector<Workload> ws = CuratedWorkloads();
    const size_t n_curated = ws.size();
    Rng r(mix64(opt_.seed, label_hash("chan-substrates")));
    for (int i = 0; i < tier_.gen_s; ++i)
      ws.push_back(GenerateWorkload(r.Fork(1000 + i), 0));
    for (int i = 0; i < tier_.gen_m; ++i)
      ws.push_back(GenerateWorkload(r.Fork(2000 + i), 1));
    for (int i = 0; i < tier_.gen_l; ++i)
      ws.push_back(GenerateWorkload(r.Fork(3000 + i), 2));
    // A sixth of the generated substrates goes through the legacy-writer stub
    // (older bitstream versions of the same geometry).
    for (size_t i = n_curated; i < ws.size(); ++i) {
      Rng lr = r.Fork(5000 + i);
      if (!lr.Chance(1, 6)) continue;
      Workload &w = ws[i];
      if (w.kind == 0) {
        w.meta = 0;
        if (lr.Chance(1, 2)) {
          w.method = 0;
          w.legacy = 1;
        } else {
          w.method = 1;
          w.expert = 0;
          w.legacy = 4;
        }
      } else if (w.kind == 1) {
        w.method = 1;
        w.meta = 0;
        w.expert = 0;
        if (lr.Chance(1, 3)) {
          w.atts.resize(1);
          w.atts[0].dt = draco::DT_FLOAT32;
          if (w.qb[0] <= 0) w.qb[0] = 11;
          w.legacy = 3;
        } else {
          for (AttDesc &d : w.atts) {
            switch (d.dt) {
              case draco::DT_INT8:
                d.dt = draco::DT_UINT8;
                break;
              case draco::DT_INT16:
                d.dt = draco::DT_UINT16;
                break;
              case draco::DT_UINT8:
              case draco::DT_UINT16:
              case draco::DT_UINT32:
                break;
              default:
                d.dt = draco::DT_UINT32;
                break;
            }
          }
          w.legacy = 2;
        }
      }
    }
    // Byzantine Edgebreaker writer instances (byz.cc).
    for (int i = 0; i < tier_.byz; ++i) {
      Workload w;
      w.kind = 0;
      w.n = 1;
      w.legacy = 5;
      w.gseed = (r.Fork(6000 + i).Next() >> 2) | 1;
      AttDesc pos;
      w.atts.push_back(pos);
      ws.push_back(w);
    }
    // One more: the carrier of the F_BYZ plans (its own bytes are the valid
    // reference quad; every plan replaces them by a fresh instance).
    size_t byz_space_index = ws.size();
    if (tier_.byz_space) {
      Workload w;
      w.kind = 0;
      w.n = 1;
      w.legacy = 5;
      w.gseed = 0;
      AttDesc pos;
      w.atts.push_back(pos);
      ws.push_back(w);
    }
    for (size_t i = 0; i < ws.size(); ++i) {
      Substrate s;
      s.w = ws[i];
      s.light = s.w.legacy == 5;
      s.byz_space = tier_.byz_space && i == byz_space_index;
      s.ok = EncodeSubstrate(s.w, nullptr, &s.bytes, &s.events, nullptr, &s.err);
      if (!s.ok) {
        rejected_.push_back(s.w.ToJson().Dump() + ": " + s.err);
        continue;
      }
      s.tamper_enum = i < n_curated || s.events.size() <= tier_.tamper_max_events;
      subs_.push_back(std::move(s));
    }
    uint64_t idx = 0;
    for (Substrate &s : subs_) {
      const size_t len = s.bytes.size();
      s.enumerate = len <= tier_.enum_max_len;
      s.n_enum = s.enumerate ? EnumCount(len).total() : tier_.sample_enum;
      if (!s.is_corpus) {
        if (s.tamper_enum && s.events.size() <= tier_.tamper_max_events) {
          s.n_tamper = s.events.size() * kTamperVariants;
        } else {
          s.tamper_enum = false;
          s.n_tamper = s.events.empty() ? 0 : tier_.tamper_sample;
        }
      }
      s.n_random = s.enumerate ? tier_.random_small : tier_.random_large;
      if (s.light) s.n_random = 60;
      if (s.byz_space) {
        s.enumerate = false;
        s.n_enum = 0;
        s.n_tamper = 0;
        s.n_random = tier_.byz_space;
      }
      s.first = idx;
      idx += s.total();
    }
    total_ = idx;
  }

  uint64_t total() const { return total_; }
  const std::vector<Substrate> &subs() const { return subs_; }
  const Tier &tier() const { return tier_; }
  const std::vector<std::string> &skipped() const { return skipped_; }
  const std::vector<std::string> &rejected() const { return rejected_; }

  size_t SubstrateOf(uint64_t idx) const {
    size_t lo = 0, hi = subs_.size();
    while (hi - lo > 1) {
      size_t mid = (lo + hi) / 2;
      if (subs_[mid].first <= idx) {
        lo = mid;
      } else {
        hi = mid;
      }
    }
    return lo;
  }

  Plan PlanFor(uint64_t idx) const {
    const size_t si = SubstrateOf(idx);
    const Substrate &s = subs_[si];
    uint64_t j = idx - s.first;
    Plan p;
    p.sub = s.Desc();
    Rng r(mix64(mix64(opt_.seed, label_hash("chan-run")), idx));
    const size_t len = s.bytes.size();
    if (j == 0) {
      // Fault-free configuration: all entry points.
      p.entries = (1 << E_NUM) - 1;
      p.skip_mask = 0x1f;
      return p;
    }
    --j;
    if (j < s.n_enum) {
      if (s.enumerate) {
        p.faults.push_back(EnumOp(len, j));
      } else {
        const uint64_t tot = EnumCount(len).total();
        p.faults.push_back(EnumOp(len, r.Below(tot)));
      }
    } else if ((j -= s.n_enum) < s.n_tamper) {
      FaultOp op;
      op.kind = F_TAMPER;
      uint64_t k = s.tamper_enum ? j : r.Below(s.events.size() * kTamperVariants);
      op.a = static_cast<int64_t>(k / kTamperVariants);
      op.b = static_cast<int64_t>(k % kTamperVariants);
      p.faults.push_back(op);
      // A fifth of the sampled tampered streams also meets the medium's faults.
      if (!s.tamper_enum && r.Chance(1, 5)) {
        std::vector<const std::vector<uint8_t> *> none;
        std::vector<FaultOp> more = RandomFaultPlan(r.Fork("tamper+"), len, none);
        if (!more.empty()) p.faults.push_back(more[0]);
      }
    } else if (s.byz_space) {
      j -= s.n_tamper;
      FaultOp op;
      op.kind = F_BYZ;
      op.a = static_cast<int64_t>(r.Next() >> 2);
      op.b = (j % 5) == 0 ? 0 : 1;
      if ((j % 5) >= 3) {
        // Two plans in five walk the stratified space in order.
        op.b = 2;
        op.a = static_cast<int64_t>((j / 5) * 2 + (j % 5) - 3);
        // VERIF_BYZ_LAP=<n>: start the walk at lap n (lap 0 = random seam
        // bits, lap k = one seam bit at position k-1); recorded in the plan,
        // so a replay does not depend on the variable.
        if (const char *lap = getenv("VERIF_BYZ_LAP"))
          op.a += static_cast<int64_t>(strtoull(lap, nullptr, 10) * ByzEnumTotal());
      }
      p.faults.push_back(op);
      if (r.Chance(1, 6)) {
        std::vector<const std::vector<uint8_t> *> none;
        std::vector<FaultOp> more = RandomFaultPlan(r.Fork("byz+"), 48, none);
        if (!more.empty()) p.faults.push_back(more[0]);
      }
    } else {
      j -= s.n_tamper;
      std::vector<const std::vector<uint8_t> *> others;
      // Splice partners: a deterministic handful of other substrates.
      for (int k = 0; k < 4; ++k) {
        const Substrate &o = subs_[r.Fork(77 + k).Below(subs_.size())];
        if (&o != &s && o.bytes.size() <= 8192) others.push_back(&o.bytes);
      }
      p.faults = RandomFaultPlan(r.Fork(j), len, others);
    }
    // Entry points: the type probe and the FromBuffer call matching the
    // substrate's geometry type always; one of the remaining five in rotation.
    const bool mesh_stream = len > 7 && s.bytes[7] == 1;
    const int main_entry = mesh_stream ? E_MESH : E_PC;
    p.entries = (1 << E_TYPE) | (1 << main_entry);
    static const int kOthersMesh[6] = {E_PC, E_TO_MESH, E_TO_PC, E_SKIP, E_ANIM, E_TWICE};
    static const int kOthersPc[6] = {E_MESH, E_TO_MESH, E_TO_PC, E_SKIP, E_ANIM, E_TWICE};
    const int pick = static_cast<int>(r.Fork("entry").Below(6));
    p.entries |= 1 << (mesh_stream ? kOthersMesh[pick] : kOthersPc[pick]);
    p.skip_mask = static_cast<int>(r.Fork("skip").Below(31)) + 1;
    p.mirrored = r.Fork("mirror").Below(4) == 0;
    return p;
  }

 private:
  ChanOptions opt_;
  Tier tier_;
  bool built_ = false;
  std::vector<Substrate> subs_;
  std::vector<std::string> skipped_, rejected_;
  uint64_t total_ = 0;
};

// Materialises the faulted bytes of a plan. Returns false if the substrate
// could not be produced (encoder rejected the tampered workload, file gone).
bool MaterialisePlan(const Plan &p, const std::string &repo,
                     const std::vector<uint8_t> *cached_bytes,
                     std::vector<uint8_t> *out, int *applied, bool *tamper_hit,
                     std::string *err) {
  *applied = 0;
  if (tamper_hit) *tamper_hit = false;
  if (p.frozen) {
    *out = p.bytes;
    return true;
  }
  const FaultOp *tamper = nullptr;
  for (const FaultOp &op : p.faults)
    if (op.kind == F_TAMPER) tamper = &op;
  if (p.sub.get("kind").Str() == "corpus") {
    if (cached_bytes) {
      *out = *cached_bytes;
    } else if (!LoadCorpusFile(repo, p.sub.get("file").Str(), out)) {
      if (err) *err = "corpus file missing";
      return false;
    }
  } else if (tamper) {
    Workload w = Workload::FromJson(p.sub.get("w"));
    bool hit = false;
    if (!EncodeSubstrate(w, tamper, out, nullptr, &hit, err)) return false;
    if (tamper_hit) *tamper_hit = hit;
    if (hit) ++*applied;
  } else if (cached_bytes) {
    *out = *cached_bytes;
  } else {
    Workload w = Workload::FromJson(p.sub.get("w"));
    if (!EncodeSubstrate(w, nullptr, out, nullptr, nullptr, err)) return false;
  }
  *applied += ApplyFaults(p.faults, out);
  return true;
}

std::string StreamSignature(const std::vector<uint8_t> &b) {
  char buf[96];
  if (b.size() < 11 || memcmp(b.data(), "DRACO", 5) != 0) return "nohdr";
  snprintf(buf, sizeof(buf), "type=%u|method=%u|v=%u.%u", b[7], b[8], b[5], b[6]);
  return buf;
}

struct KindStats {
  uint64_t planned = 0, applied = 0, effective = 0;
};

struct WorkerStats {
  uint64_t runs = 0, calls = 0, steps = 0;
  uint64_t substrate_unavailable = 0;
  uint64_t skipped_dead_substrate = 0;
  std::map<std::string, KindStats> kinds;
  std::map<std::string, uint64_t> outcomes;   // entry|outcome|status
  std::map<std::string, uint64_t> sig_counts; // prop|class|sig
  uint64_t accepted_changed = 0;  // faulted, accepted, digest != baseline
  uint64_t effective_runs = 0;
  // C18 calibration: largest (size - a)/U ratios seen (x1000).
  uint64_t max_single = 0, max_single_u = 0;
  uint64_t max_peak = 0, max_peak_u = 0;
  double max_single_ratio = 0, max_peak_ratio = 0;
  uint64_t big_declared_calls = 0;  // calls that saw a declared count >= 2^20
  std::vector<uint64_t> eff_hashes;
  bool want_run_hashes = false;
  std::vector<uint64_t> run_hashes;  // (idx, hash) pairs
};

Json StatsToJson(const WorkerStats &s) {
  Json j = Json::Object();
  j["t"] = "stats";
  j["runs"] = static_cast<unsigned long long>(s.runs);
  j["calls"] = static_cast<unsigned long long>(s.calls);
  j["steps"] = static_cast<unsigned long long>(s.steps);
  j["substrate_unavailable"] =
      static_cast<unsigned long long>(s.substrate_unavailable);
  j["skipped_dead_substrate"] =
      static_cast<unsigned long long>(s.skipped_dead_substrate);
  Json k = Json::Object();
  for (auto &kv : s.kinds) {
    Json e = Json::Array();
    e.push(static_cast<unsigned long long>(kv.second.planned));
    e.push(static_cast<unsigned long long>(kv.second.applied));
    e.push(static_cast<unsigned long long>(kv.second.effective));
    k[kv.first] = e;
  }
  j["kinds"] = k;
  Json o = Json::Object();
  for (auto &kv : s.outcomes) o[kv.first] = static_cast<unsigned long long>(kv.second);
  j["outcomes"] = o;
  Json sc = Json::Object();
  for (auto &kv : s.sig_counts) sc[kv.first] = static_cast<unsigned long long>(kv.second);
  j["sig_counts"] = sc;
  j["accepted_changed"] = static_cast<unsigned long long>(s.accepted_changed);
  j["effective_runs"] = static_cast<unsigned long long>(s.effective_runs);
  j["max_single"] = static_cast<unsigned long long>(s.max_single);
  j["max_single_u"] = static_cast<unsigned long long>(s.max_single_u);
  j["max_peak"] = static_cast<unsigned long long>(s.max_peak);
  j["max_peak_u"] = static_cast<unsigned long long>(s.max_peak_u);
  j["max_single_ratio"] = s.max_single_ratio;
  j["max_peak_ratio"] = s.max_peak_ratio;
  j["big_declared_calls"] = static_cast<unsigned long long>(s.big_declared_calls);
  return j;
}

// Executes one plan: all selected entry points, oracles, candidate lines.
class Executor {
 public:
  Executor(const std::string &repo, const Tier &tier) : repo_(repo), tier_(tier) {}

  CallConfig ConfigFor(const Plan &p, int entry, const Baseline *base) const {
    CallConfig c;
    c.budget_bytes = tier_.budget_bytes;
    c.skip_mask = entry == E_SKIP ? p.skip_mask : 0;
    c.mirrored = p.mirrored;
    uint64_t b = tier_.step_min;
    if (base && base[entry].steps * tier_.step_mult > b)
      b = base[entry].steps * tier_.step_mult;
    if (b > tier_.step_cap) b = tier_.step_cap;
    c.step_budget = b;
    c.lasso_steps = b;
    return c;
  }

  // |sub| may be null (exec of a stand-alone plan).
  void Execute(uint64_t idx, const Plan &p, const Substrate *sub,
               WorkerStats *st, std::string *out_lines, Json *results) {
    std::vector<uint8_t> bytes;
    int applied = 0;
    bool tamper_hit = false;
    std::string err;
    PoolSetTag(4);
    const bool have = MaterialisePlan(p, repo_, sub ? &sub->bytes : nullptr,
                                      &bytes, &applied, &tamper_hit, &err);
    PoolSetTag(0);
    if (!have) {
      if (st) ++st->substrate_unavailable;
      if (results) {
        Json r = Json::Object();
        r["unavailable"] = err;
        results->push(r);
      }
      return;
    }
    if (st) {
      ++st->runs;
      for (const FaultOp &op : p.faults) ++st->kinds[FaultKindName(op.kind)].planned;
      if (p.faults.size() > 1) ++st->kinds["multi_site"].planned;
    }
    const std::string ssig = StreamSignature(bytes);
    bool effective = false;
    bool accepted_changed = false;
    Hasher run_hash;
    run_hash.Bytes(bytes.data(), bytes.size());
    for (int e = 0; e < E_NUM; ++e) {
      if (!(p.entries & (1 << e))) continue;
      const Baseline *base = (sub && sub->have_base) ? sub->base : nullptr;
      CallResult r = RunEntry(e, bytes, ConfigFor(p, e, base));
      if (results) results->push(r.ToJson());
      run_hash.U64(static_cast<uint64_t>(e));
      run_hash.U64(static_cast<uint64_t>(r.outcome));
      run_hash.U64(static_cast<uint64_t>(r.status_code));
      run_hash.Str(r.status_msg);
      run_hash.U64(r.digest);
      run_hash.U64(r.alloc.count);
      run_hash.U64(r.alloc.bytes);
      run_hash.U64(r.alloc.peak);
      run_hash.Str(r.c03_clause);
      if (st) {
        ++st->calls;
        st->steps += r.steps;
        char key[160];
        snprintf(key, sizeof(key), "%s|%s|%d", EntryName(e),
                 OutcomeName(r.outcome), r.status_code);
        ++st->outcomes[key];
        const double u = static_cast<double>(r.alloc.largest_u ? r.alloc.largest_u : 1);
        // Ratios relative to the additive constants (calibration aid).
        if (r.alloc.largest > (8ull << 20)) {
          double ratio = (r.alloc.largest - (8ull << 20)) / u;
          if (ratio > st->max_single_ratio) {
            st->max_single_ratio = ratio;
            st->max_single = r.alloc.largest;
            st->max_single_u = r.alloc.largest_u;
          }
        }
        if (r.alloc.peak > (24ull << 20)) {
          double pu = static_cast<double>(r.alloc.peak_u ? r.alloc.peak_u : 1);
          double ratio = (r.alloc.peak - (24ull << 20)) / pu;
          if (ratio > st->max_peak_ratio) {
            st->max_peak_ratio = ratio;
            st->max_peak = r.alloc.peak;
            st->max_peak_u = r.alloc.peak_u;
          }
        }
        if (r.declared[0] >= (1u << 20) || r.declared[1] >= (1u << 20) ||
            r.declared[2] >= (1u << 20))
          ++st->big_declared_calls;
      }
      if (base) {
        const Baseline &b = base[e];
        if (r.outcome != b.outcome || r.status_code != b.status_code ||
            r.digest != b.digest || r.steps != b.steps)
          effective = true;
        if (r.outcome == O_OK && e != E_TYPE && !p.faults.empty() &&
            r.digest != b.digest)
          accepted_changed = true;
      }
      // ----- oracles -----
      auto cand = [&](const char *prop, const char *cls, const std::string &sig,
                      const std::string &detail, const Json &extra) {
        std::string key = std::string(prop) + "|" + cls + "|" + sig;
        if (st) ++st->sig_counts[key];
        const uint64_t n = ++emitted_[key];
        if (n > 3 || !out_lines) return;
        Json c = Json::Object();
        c["t"] = "cand";
        c["idx"] = static_cast<unsigned long long>(idx);
        c["prop"] = prop;
        c["class"] = cls;
        c["sig"] = sig;
        c["detail"] = detail;
        c["entry"] = EntryName(e);
        c["stream"] = ssig;
        c["len"] = static_cast<unsigned long long>(bytes.size());
        if (!extra.is_null()) c["extra"] = extra;
        Plan fp = p;
        fp.bytes = bytes;
        c["plan"] = fp.ToJson(true);
        *out_lines += c.Dump();
        *out_lines += '\n';
      };
      if (r.outcome == O_EXCEPTION) {
        cand("C02", "exception", r.exception_what, r.exception_what, Json());
      }
      if (r.outcome == O_RECURRENCE) {
        Json ex = Json::Object();
        ex["pc"] = static_cast<unsigned long long>(r.last_pc);
        ex["steps"] = static_cast<unsigned long long>(r.steps);
        std::string lsig = "loopbt";
        for (int i = 0; i < r.n_loop_pcs; ++i) lsig += ":" + Hex64(r.loop_pcs[i]);
        if (r.n_loop_pcs == 0) lsig = "pc:" + Hex64(r.last_pc);
        cand("C02", "nontermination", lsig,
             "exact recurrence of the complete machine state", ex);
      }
      if (r.outcome == O_UNDECIDED && out_lines && st) {
        ++st->sig_counts["undecided|" + Hex64(r.last_pc)];
        const uint64_t n = ++emitted_["undecided|" + Hex64(r.last_pc)];
        if (n <= 2) {
          Json c = Json::Object();
          c["t"] = "undecided";
          c["idx"] = static_cast<unsigned long long>(idx);
          c["pc"] = static_cast<unsigned long long>(r.last_pc);
          c["steps"] = static_cast<unsigned long long>(r.steps);
          c["entry"] = EntryName(e);
          Json d = Json::Array();
          for (int i = 0; i < 4; ++i)
            d.push(static_cast<unsigned long long>(r.declared[i]));
          c["declared"] = d;
          *out_lines += c.Dump();
          *out_lines += '\n';
        }
      }
      if (r.input_modified) {
        cand("C02", "input_modified", "input_modified", "caller's bytes changed",
             Json());
      }
      if (!r.c03_clause.empty()) {
        cand("C03", "structure", r.c03_clause + "|" + ssig, r.c03_detail, Json());
      }
      if (r.alloc.viol_kind) {
        Json ex = Json::Object();
        Json pcs = Json::Array();
        for (int i = 0; i < r.n_alloc_pcs; ++i)
          pcs.push(static_cast<unsigned long long>(r.alloc_pcs[i]));
        ex["pcs"] = pcs;
        ex["kind"] = r.alloc.viol_kind == 1 ? "single_request" : "peak";
        ex["size"] = static_cast<unsigned long long>(r.alloc.viol_size);
        ex["live"] = static_cast<unsigned long long>(r.alloc.viol_live);
        ex["u"] = static_cast<unsigned long long>(r.alloc.viol_u);
        Json d = Json::Array();
        for (int i = 0; i < 4; ++i)
          d.push(static_cast<unsigned long long>(r.declared[i]));
        ex["declared"] = d;
        char det[200];
        snprintf(det, sizeof(det),
                 "%s of %llu bytes (live %llu) with U=%llu (len %zu, declared "
                 "P=%llu F=%llu V=%llu C=%llu)",
                 r.alloc.viol_kind == 1 ? "single request" : "live peak",
                 static_cast<unsigned long long>(r.alloc.viol_size),
                 static_cast<unsigned long long>(r.alloc.viol_live),
                 static_cast<unsigned long long>(r.alloc.viol_u), bytes.size(),
                 static_cast<unsigned long long>(r.declared[0]),
                 static_cast<unsigned long long>(r.declared[1]),
                 static_cast<unsigned long long>(r.declared[2]),
                 static_cast<unsigned long long>(r.declared[3]));
        // Signature is completed by the driver (symbolised allocation site).
        std::string sig = "bt";
        for (int i = 0; i < r.n_alloc_pcs; ++i) sig += ":" + Hex64(r.alloc_pcs[i]);
        cand("C18", "alloc_bound", sig, det, ex);
      }
    }
    if (st && st->want_run_hashes) PoolLogRunHash(idx, run_hash.Digest());
    if (st) {
      for (const FaultOp &op : p.faults) {
        if (applied) ++st->kinds[FaultKindName(op.kind)].applied;
        if (effective) ++st->kinds[FaultKindName(op.kind)].effective;
      }
      if (p.faults.size() > 1) {
        if (applied) ++st->kinds["multi_site"].applied;
        if (effective) ++st->kinds["multi_site"].effective;
      }
      if (accepted_changed) ++st->accepted_changed;
      if (effective && !p.faults.empty()) {
        ++st->effective_runs;
        Hasher h;
        h.Bytes(bytes.data(), bytes.size());
        h.U64(static_cast<uint64_t>(p.entries));
        st->eff_hashes.push_back(h.Digest());
      }
    }
  }

  void ComputeBaseline(Substrate *s) {
    Plan p;
    p.skip_mask = 0x1f;
    for (int e = 0; e < E_NUM; ++e) {
      CallResult r = RunEntry(e, s->bytes, ConfigFor(p, e, nullptr));
      Baseline &b = s->base[e];
      b.outcome = r.outcome;
      b.status_code = r.status_code;
      b.digest = r.digest;
      b.steps = r.steps;
    }
    s->have_base = true;
  }

 private:
  std::string repo_;
  Tier tier_;
  std::map<std::string, uint64_t> emitted_;  // candidate lines per signature
};

void FlushHashes(const std::string &dir, int worker, std::vector<uint64_t> *h) {
  if (h->empty() || dir.empty()) return;
  char name[512];
  snprintf(name, sizeof(name), "%s/hashes.%d.bin", dir.c_str(), worker);
  FILE *f = fopen(name, "ab");
  if (f) {
    fwrite(h->data(), 8, h->size(), f);
    fclose(f);
  }
  h->clear();
}

}  // namespace

// ------------------------------------------------------------- batch -----
int ChanBatch(const ChanOptions &opt) {
  Batch batch(opt);
  batch.BuildSubstrates();
  uint64_t total = batch.total();
  if (opt.max_runs && opt.max_runs < total) total = opt.max_runs;

  Json summary = Json::Object();
  summary["engine"] = "chan";
  summary["tier"] = opt.tier;
  summary["seed"] = static_cast<unsigned long long>(opt.seed);
  summary["total_planned"] = static_cast<unsigned long long>(total);
  Json cands = Json::Array();
  Json undecided = Json::Array();
  WorkerStats agg;
  std::map<std::string, uint64_t> death_classes;
  uint64_t deaths_in_validation = 0;
  uint64_t writer_deaths = 0;

  // Per-worker state (lives in the forked child).
  static Batch *wb = nullptr;
  static Executor *wex = nullptr;
  static WorkerStats wst;
  static std::vector<Substrate> *wsubs = nullptr;

  PoolCallbacks cb;
  // Baselines of every substrate (fault-free configuration), computed once in
  // forked children so that a build in which a valid stream kills the process
  // (debug assertions) still gets through; workers inherit them by fork.
  {
    Executor bex(opt.repo, batch.tier());
    std::vector<Substrate> &subs = const_cast<std::vector<Substrate> &>(batch.subs());
    for (Substrate &s : subs) {
      int pfd[2];
      if (pipe(pfd) != 0) abort();
      fflush(stdout);
      fflush(stderr);
      pid_t pid = fork();
      if (pid == 0) {
        close(pfd[0]);
        int dn = open("/dev/null", O_WRONLY);
        if (dn >= 0) {
          dup2(dn, 1);
          dup2(dn, 2);
        }
        bex.ComputeBaseline(&s);
        ssize_t r = write(pfd[1], s.base, sizeof(s.base));
        (void)r;
        _exit(0);
      }
      close(pfd[1]);
      Baseline tmp[E_NUM];
      size_t got = 0;
      while (got < sizeof(tmp)) {
        ssize_t n = read(pfd[0], reinterpret_cast<char *>(tmp) + got, sizeof(tmp) - got);
        if (n <= 0) break;
        got += static_cast<size_t>(n);
      }
      close(pfd[0]);
      int status = 0;
      waitpid(pid, &status, 0);
      if (got == sizeof(tmp)) {
        memcpy(s.base, tmp, sizeof(tmp));
        s.have_base = true;
      } else {
        s.base_dead = true;
      }
    }
  }
  static int wself = -1;
  cb.init = [&](int w) {
    wself = w;
    wb = &batch;
    wex = new Executor(opt.repo, batch.tier());
    wsubs = const_cast<std::vector<Substrate> *>(&batch.subs());
    // Warm-up (first-use initialisation) on a substrate that is known to live.
    for (Substrate &s : *wsubs) {
      if (s.base_dead) continue;
      Substrate tmp = s;
      wex->ComputeBaseline(&tmp);
      break;
    }
    wst = WorkerStats();
    wst.want_run_hashes = opt.hashlog;
  };
  cb.run = [&](uint64_t idx, std::string *out) {
    if (opt.sample_mod > 1 && idx % opt.sample_mod != 0) return;
    Plan p = wb->PlanFor(idx);
    const Substrate *s = &(*wsubs)[wb->SubstrateOf(idx)];
    // A substrate whose valid stream already kills the process is reported
    // once, by its fault-free run; its faulted variants would only repeat it.
    if (s->base_dead && idx != s->first) {
      ++wst.skipped_dead_substrate;
      return;
    }
    wex->Execute(idx, p, s, &wst, out, nullptr);
    // Keep memory flat; the files are merged by the parent.
    if (wst.eff_hashes.size() >= 8192)
      FlushHashes(opt.log_dir, wself, &wst.eff_hashes);
    // Ship statistics as deltas so that a dying worker loses little.
    if (wst.runs >= 1000) {
      FlushHashes(opt.log_dir, wself, &wst.eff_hashes);
      *out += StatsToJson(wst).Dump();
      *out += '\n';
      const bool want = wst.want_run_hashes;
      std::vector<uint64_t> rh;
      rh.swap(wst.run_hashes);
      wst = WorkerStats();
      wst.want_run_hashes = want;
      wst.run_hashes.swap(rh);
    }
  };
  cb.finish = [&](int w, std::string *out) {
    FlushHashes(opt.log_dir, w, &wst.eff_hashes);
    *out += StatsToJson(wst).Dump();
    *out += '\n';
    // Edge bitmap.
    char name[512];
    snprintf(name, sizeof(name), "%s/edges.%d.bin", opt.log_dir.c_str(), w);
    FILE *f = fopen(name, "ab");
    if (f) {
      fwrite(StepsBitmap(), 1, StepsNumGuards() + 1, f);
      fclose(f);
    }
  };
  auto merge_stats = [&](const Json &j) {
    agg.runs += j.get("runs").U64();
    agg.calls += j.get("calls").U64();
    agg.steps += j.get("steps").U64();
    agg.substrate_unavailable += j.get("substrate_unavailable").U64();
    agg.skipped_dead_substrate += j.get("skipped_dead_substrate").U64();
    for (auto &kv : j.get("kinds").items()) {
      KindStats &k = agg.kinds[kv.first];
      k.planned += kv.second.at(0).U64();
      k.applied += kv.second.at(1).U64();
      k.effective += kv.second.at(2).U64();
    }
    for (auto &kv : j.get("outcomes").items()) agg.outcomes[kv.first] += kv.second.U64();
    for (auto &kv : j.get("sig_counts").items()) agg.sig_counts[kv.first] += kv.second.U64();
    agg.accepted_changed += j.get("accepted_changed").U64();
    agg.effective_runs += j.get("effective_runs").U64();
    if (j.get("max_single_ratio").Dbl() > agg.max_single_ratio) {
      agg.max_single_ratio = j.get("max_single_ratio").Dbl();
      agg.max_single = j.get("max_single").U64();
      agg.max_single_u = j.get("max_single_u").U64();
    }
    if (j.get("max_peak_ratio").Dbl() > agg.max_peak_ratio) {
      agg.max_peak_ratio = j.get("max_peak_ratio").Dbl();
      agg.max_peak = j.get("max_peak").U64();
      agg.max_peak_u = j.get("max_peak_u").U64();
    }
    agg.big_declared_calls += j.get("big_declared_calls").U64();
  };
  cb.on_line = [&](const std::string &line) {
    Json j;
    if (!Json::Parse(line, &j)) return;
    const std::string t = j.get("t").Str();
    if (t == "cand") {
      if (cands.size() < 400) cands.push(j);
    } else if (t == "undecided") {
      if (undecided.size() < 200) undecided.push(j);
    } else if (t == "stats") {
      merge_stats(j);
    }
  };
  uint64_t death_count = 0;
  cb.on_death = [&](const PoolDeath &d) {
    ++death_count;
    std::string sig, excerpt;
    std::string cls = ClassifyDeath(d, &sig, &excerpt);
    ++death_classes[cls];
    if (!d.in_run) {
      Json c = Json::Object();
      c["t"] = "machinery";
      c["class"] = cls;
      c["detail"] = "worker died outside a run: " + sig;
      c["log"] = excerpt;
      cands.push(c);
      return;
    }
    if (cls == "tolerated_terminate") return;
    if (d.tag == 4) {
      // The *writer* died while producing a tampered stream: that is the
      // fault injector's doing, not a decoder property. Counted, not reported.
      ++writer_deaths;
      return;
    }
    Plan p = batch.PlanFor(d.idx);
    Json c = Json::Object();
    c["t"] = "cand";
    c["idx"] = static_cast<unsigned long long>(d.idx);
    // Death while the harness was reading the returned geometry through the
    // public accessors is C03's; anywhere else it is C02's.
    const bool in_validation = d.tag == 2;
    if (in_validation) ++deaths_in_validation;
    if (cls == "wallclock") {
      c["t"] = "undecided";
      c["class"] = "undecided_wallclock";
    } else {
      c["prop"] = in_validation ? "C03" : "C02";
      c["class"] = in_validation ? "accessor_crash" : "crash";
    }
    c["sig"] = sig;
    c["detail"] = cls;
    c["log"] = excerpt;
    // Never materialise in the parent: the plan alone identifies the run.
    c["plan"] = p.ToJson(false);
    if (cls == "wallclock") {
      undecided.push(c);
    } else if (cands.size() < 400) {
      cands.push(c);
    }
  };

  PoolOptions po;
  po.workers = opt.workers;
  po.begin = 0;
  po.end = total;
  po.budget_s = opt.budget_s;
  po.log_dir = opt.log_dir;
  po.hashlog = opt.hashlog;
  po.permute = opt.budget_s > 0;
  if (opt.max_deaths) po.max_deaths = opt.max_deaths;
  PoolResult pr = RunPool(po, cb);

  // Merge the hashes of effective faulted streams.
  std::vector<uint64_t> hashes;
  for (int w = 0; w < 64; ++w) {
    char name[512];
    snprintf(name, sizeof(name), "%s/hashes.%d.bin", opt.log_dir.c_str(), w);
    std::string s;
    if (!ReadFile(name, &s)) continue;
    size_t n = s.size() / 8;
    size_t old = hashes.size();
    hashes.resize(old + n);
    memcpy(hashes.data() + old, s.data(), n * 8);
  }
  std::sort(hashes.begin(), hashes.end());
  hashes.erase(std::unique(hashes.begin(), hashes.end()), hashes.end());

  summary["runs"] = static_cast<unsigned long long>(agg.runs);
  summary["calls"] = static_cast<unsigned long long>(agg.calls);
  summary["steps"] = static_cast<unsigned long long>(agg.steps);
  summary["wall_s"] = pr.wall_s;
  summary["budget_hit"] = pr.budget_hit;
  summary["deaths"] = static_cast<unsigned long long>(death_count);
  summary["writer_deaths"] = static_cast<unsigned long long>(writer_deaths);
  summary["deaths_in_validation"] =
      static_cast<unsigned long long>(deaths_in_validation);
  Json dc = Json::Object();
  for (auto &kv : death_classes) dc[kv.first] = static_cast<unsigned long long>(kv.second);
  summary["death_classes"] = dc;
  summary["distinct_effective"] = static_cast<unsigned long long>(hashes.size());
  summary["stats"] = StatsToJson(agg);
  summary["candidates"] = cands;
  summary["undecided"] = undecided;
  Json subs = Json::Array();
  for (const Substrate &s : batch.subs()) {
    Json e = s.Desc();
    e["len"] = static_cast<unsigned long long>(s.bytes.size());
    e["first"] = static_cast<unsigned long long>(s.first);
    e["runs"] = static_cast<unsigned long long>(s.total());
    e["enumerated"] = s.enumerate;
    e["tamper_events"] = static_cast<unsigned long long>(s.events.size());
    e["tamper_enumerated"] = s.tamper_enum;
    if (s.base_dead) e["valid_stream_kills_process"] = true;
    subs.push(e);
  }
  summary["substrates"] = subs;
  Json sk = Json::Array();
  for (auto &s : batch.skipped()) sk.push(s);
  summary["corpus_skipped"] = sk;
  Json rj = Json::Array();
  for (auto &s : batch.rejected()) rj.push(s);
  summary["substrates_rejected_by_encoder"] = rj;
  summary["num_guards"] = static_cast<unsigned long long>(StepsNumGuards());
  // Reach: merge the workers' edge bitmaps; store the PC of every guard so that
  // the driver can map covered edges to source lines.
  {
    const uint32_t ng = StepsNumGuards();
    std::vector<uint8_t> merged(ng + 1, 0);
    for (int w = 0; w < 64; ++w) {
      char name[512];
      snprintf(name, sizeof(name), "%s/edges.%d.bin", opt.log_dir.c_str(), w);
      std::string b;
      if (!ReadFile(name, &b)) continue;
      // A restarted worker appends another bitmap: fold all of them.
      for (size_t off = 0; off + ng + 1 <= b.size(); off += ng + 1)
        for (uint32_t i = 0; i <= ng; ++i) merged[i] |= static_cast<uint8_t>(b[off + i]);
    }
    uint64_t covered = 0;
    for (uint32_t i = 1; i <= ng; ++i) covered += merged[i] ? 1 : 0;
    summary["edges_reached"] = static_cast<unsigned long long>(covered);
    uint32_t npcs = 0;
    const uintptr_t *pcs = StepsPcTable(&npcs);
    std::string out;
    for (uint32_t i = 1; i <= ng && i <= npcs; ++i) {
      if (!merged[i]) continue;
      uint64_t pc = pcs[2 * (i - 1)];
      out.append(reinterpret_cast<const char *>(&pc), 8);
    }
    WriteFile(opt.log_dir + "/covered_pcs.bin", out);
  }
  WriteFile(opt.out_path, summary.Dump());
  return 0;
}

// Canaries: see canary_chan.cc. Each runs in its own pool worker through the
// same RunEntry seams as a decoder call.
int ChanCanary(const ChanOptions &opt) {
  struct Exp {
    int entry;
    const char *name;
    const char *expect;
  };
  static const Exp exps[] = {
      {101, "heap_overflow_read", "death:asan:heap-buffer-overflow"},
      {102, "unjustified_1GiB_request", "refused_outside_bound+bound_violation"},
      {103, "state_stable_infinite_loop", "nontermination_recurrence"},
      {104, "negative:long_finite_loop", "undecided_budget"},
      {105, "negative:declared_512MiB_request", "tolerated_alloc_failure"},
      {106, "uninitialised_heap_read", "differs_between_environments"},
  };
  const int n = sizeof(exps) / sizeof(exps[0]);
  std::map<uint64_t, std::string> got;
  PoolCallbacks cb;
  cb.run = [&](uint64_t i, std::string *out) {
    std::string g;
    if (exps[i].entry == 106) {
      AllocConfig a0;
      a0.perturb = true;
      a0.fill_mode = 1;
      a0.pad = false;
      AllocBegin(a0);
      const uint64_t v0 = sim_canary_uninit_read();
      AllocEnd(false);
      AllocConfig a1;
      a1.perturb = true;
      a1.fill_mode = 3;
      AllocBegin(a1);
      const uint64_t v1 = sim_canary_uninit_read();
      AllocEnd(false);
      g = v0 != v1 ? "differs_between_environments" : "same_in_all_environments";
    } else {
      CallConfig c;
      c.budget_bytes = 64ull << 20;
      c.step_budget = 20000000ull;
      c.lasso_steps = 20000000ull;
      std::vector<uint8_t> bytes(32, 0);
      CallResult r = RunEntry(exps[i].entry, bytes, c);
      g = OutcomeName(r.outcome);
      if (r.alloc.viol_kind) g += "+bound_violation";
    }
    *out += std::to_string(i) + " " + g + "\n";
  };
  cb.on_line = [&](const std::string &line) {
    size_t sp = line.find(' ');
    if (sp == std::string::npos) return;
    got[strtoull(line.c_str(), nullptr, 10)] = line.substr(sp + 1);
  };
  cb.on_death = [&](const PoolDeath &d) {
    std::string sig, excerpt;
    std::string cls = ClassifyDeath(d, &sig, &excerpt);
    got[d.idx] = "death:" + cls;
  };
  PoolOptions po;
  po.workers = 1;
  po.begin = 0;
  po.end = n;
  po.log_dir = opt.log_dir;
  po.head = n;
  RunPool(po, cb);
  Json arr = Json::Array();
  bool all_ok = true;
#if defined(__has_feature)
#if __has_feature(address_sanitizer)
  const bool have_asan = true;
#else
  const bool have_asan = false;
#endif
#else
  const bool have_asan = false;
#endif
  for (int i = 0; i < n; ++i) {
    Json e = Json::Object();
    e["canary"] = exps[i].name;
    e["expected"] = exps[i].expect;
    e["got"] = got.count(i) ? got[i] : "missing";
    bool ok = got.count(i) && got[i] == exps[i].expect;
    if (exps[i].entry == 101 && !have_asan) {
      ok = true;  // no ASan in this build: the canary cannot be seen here
      e["skipped"] = "build has no AddressSanitizer";
    }
    e["ok"] = ok;
    if (!ok) all_ok = false;
    arr.push(e);
  }
  // Legacy-writer stub: every curated older-bitstream substrate must be
  // accepted by the real decoder and (for the byte-level downgrades) decode to
  // exactly the geometry of the current-version stream it was made from.
  {
    auto decode = [](const std::vector<uint8_t> &b, uint64_t *digest,
                     uint32_t *np) {
      draco::DecoderBuffer db;
      db.Init(reinterpret_cast<const char *>(b.data()), b.size());
      draco::Decoder d;
      if (b.size() > 7 && b[7] == 1) {
        auto m = d.DecodeMeshFromBuffer(&db);
        if (!m.ok()) return false;
        std::string det;
        if (!ValidateGeometry(*m.value(), m.value().get(), true, &det).empty())
          return false;
        *digest = GeometryDigest(*m.value(), m.value().get());
        *np = m.value()->num_points();
      } else {
        auto m = d.DecodePointCloudFromBuffer(&db);
        if (!m.ok()) return false;
        std::string det;
        if (!ValidateGeometry(*m.value(), nullptr, true, &det).empty())
          return false;
        *digest = GeometryDigest(*m.value(), nullptr);
        *np = m.value()->num_points();
      }
      return true;
    };
    int li = 0;
    for (const Workload &w : CuratedWorkloads()) {
      if (!w.legacy) continue;
      Json e = Json::Object();
      e["canary"] = "legacy_stub:" + std::to_string(li++) + ":kind" +
                    std::to_string(w.legacy);
      e["expected"] = "accepted_and_same_geometry_as_current_stream";
      std::string got_s = "accepted_and_same_geometry_as_current_stream";
      std::vector<uint8_t> old_bytes, cur_bytes;
      std::string err;
      uint64_t d_old = 0, d_cur = 1;
      uint32_t np_old = 0, np_cur = 0;
      Workload cur = w;
      cur.legacy = 0;
      if (!EncodeWorkload(w, &old_bytes, &err)) {
        got_s = "stub_failed:" + err;
      } else if (!decode(old_bytes, &d_old, &np_old)) {
        got_s = "rejected_by_decoder";
      } else if (!EncodeWorkload(cur, &cur_bytes, &err) ||
                 !decode(cur_bytes, &d_cur, &np_cur)) {
        got_s = "current_stream_failed";
      } else if (w.legacy == 3 ? np_old != np_cur : d_old != d_cur) {
        got_s = "decodes_to_other_geometry";
      } else if (w.legacy == 1 && w.n >= 20000 && np_old < 65536) {
        got_s = "too_few_points_for_32bit_indices:" + std::to_string(np_old);
      }
      e["got"] = got_s;
      e["version"] = old_bytes.size() > 6
                         ? std::to_string(old_bytes[5]) + "." + std::to_string(old_bytes[6])
                         : "?";
      e["bytes"] = static_cast<unsigned long long>(old_bytes.size());
      const bool ok = got_s == "accepted_and_same_geometry_as_current_stream";
      e["ok"] = ok;
      if (!ok) all_ok = false;
      arr.push(e);
    }
  }
  // Byzantine Edgebreaker writer: its reference instance (a quad) must be a
  // valid stream for the real decoder - the writer emits the layout correctly.
  {
    Workload w;
    w.kind = 0;
    w.n = 1;
    w.legacy = 5;
    w.gseed = 0;
    AttDesc pos;
    w.atts.push_back(pos);
    std::vector<uint8_t> b;
    std::string err;
    Json e = Json::Object();
    e["canary"] = "byz_writer:reference_quad";
    e["expected"] = "accepted:2 faces,4 points";
    std::string got_s = "encode_failed";
    if (EncodeWorkload(w, &b, &err)) {
      draco::DecoderBuffer db;
      db.Init(reinterpret_cast<const char *>(b.data()), b.size());
      draco::Decoder d;
      auto m = d.DecodeMeshFromBuffer(&db);
      if (!m.ok()) {
        got_s = std::string("rejected:") + m.status().error_msg();
      } else {
        std::string det;
        got_s = "accepted:" + std::to_string(m.value()->num_faces()) + " faces," +
                std::to_string(m.value()->num_points()) + " points";
        if (!ValidateGeometry(*m.value(), m.value().get(), true, &det).empty())
          got_s += ",invalid";
      }
    }
    e["got"] = got_s;
    const bool ok = got_s == "accepted:2 faces,4 points";
    e["ok"] = ok;
    if (!ok) all_ok = false;
    arr.push(e);
  }
  Json out = Json::Object();
  out["canaries"] = arr;
  out["all_ok"] = all_ok;
  WriteFile(opt.out_path, out.Dump());
  return all_ok ? 0 : 3;
}

int ChanPlanOf(const ChanOptions &opt, const std::string &idxs) {
  Batch batch(opt);
  batch.BuildSubstrates();
  // "total" prints the size of the index space; else a comma separated list.
  if (idxs == "total") {
    printf("%llu\n", static_cast<unsigned long long>(batch.total()));
    return 0;
  }
  size_t pos = 0;
  while (pos < idxs.size()) {
    size_t e = idxs.find(',', pos);
    if (e == std::string::npos) e = idxs.size();
    const uint64_t idx = strtoull(idxs.substr(pos, e - pos).c_str(), nullptr, 0);
    pos = e + 1;
    if (idx >= batch.total()) continue;
    Plan p = batch.PlanFor(idx);
    printf("%s\n", p.ToJson(false).Dump().c_str());
  }
  return 0;
}

int ChanExec(const std::string &plans_path, const std::string &out_path,
             const std::string &repo, int workers, const std::string &log_dir) {
  std::string text;
  if (!ReadFile(plans_path, &text)) return 2;
  std::vector<Json> plans;
  size_t pos = 0;
  while (pos < text.size()) {
    size_t e = text.find('\n', pos);
    if (e == std::string::npos) e = text.size();
    std::string line = text.substr(pos, e - pos);
    pos = e + 1;
    if (line.empty()) continue;
    Json j;
    if (!Json::Parse(line, &j)) j = Json::Object();
    plans.push_back(j);
  }
  std::map<uint64_t, std::string> results;
  PoolCallbacks cb;
  cb.run = [&](uint64_t n, std::string *out) {
    const Json &j = plans[n];
    Plan p = Plan::FromJson(j);
    // Marker for tools that watch the worker's stderr (valgrind pass).
    fprintf(stderr, "SIM-PLAN %llu\n", static_cast<unsigned long long>(n));
    const std::string tier = j.has("tier") ? j.get("tier").Str() : "quick";
    if (j.get("materialise_only").Int()) {
      std::vector<uint8_t> bytes;
      int applied;
      std::string err;
      Json r = Json::Object();
      r["t"] = "result";
      r["n"] = static_cast<unsigned long long>(n);
      r["results"] = Json::Array();
      r["cands"] = Json::Array();
      PoolSetTag(4);
      if (MaterialisePlan(p, repo, nullptr, &bytes, &applied, nullptr, &err))
        r["bytes"] = HexBytes(bytes.data(), bytes.size());
      PoolSetTag(0);
      *out += r.Dump();
      *out += '\n';
      return;
    }
    Executor exl(repo, TierConfig(tier));
    WorkerStats st;
    std::string lines;
    Json res = Json::Array();
    // Baseline first so that patience budgets match the batch.
    Substrate sub;
    bool have_sub = false;
    if (p.sub.is_obj()) {
      Plan bp;
      bp.sub = p.sub;
      int applied;
      std::string err;
      if (MaterialisePlan(bp, repo, nullptr, &sub.bytes, &applied, nullptr, &err)) {
        exl.ComputeBaseline(&sub);
        have_sub = true;
      }
    }
    exl.Execute(n, p, have_sub ? &sub : nullptr, &st, &lines, &res);
    Json r = Json::Object();
    r["t"] = "result";
    r["n"] = static_cast<unsigned long long>(n);
    r["results"] = res;
    Json cs = Json::Array();
    size_t lp = 0;
    while (lp < lines.size()) {
      size_t le = lines.find('\n', lp);
      Json c;
      if (Json::Parse(lines.substr(lp, le - lp), &c)) {
        if (c.get("t").Str() == "cand") {
          // Keep the materialised bytes once (for the replay file).
          if (!r.has("bytes")) r["bytes"] = c.get("plan").get("bytes");
          c.erase("plan");
          cs.push(c);
        }
      }
      lp = le + 1;
    }
    r["cands"] = cs;
    // Event-log hash of the run: entry, status, digest, allocator totals.
    Hasher h;
    for (size_t i = 0; i < res.size(); ++i) {
      const Json &x = res.at(i);
      h.Str(x.get("entry").Str());
      h.Str(x.get("outcome").Str());
      h.U64(x.get("status_code").U64());
      h.Str(x.get("digest").Str());
      h.U64(x.get("alloc_count").U64());
      h.U64(x.get("alloc_peak").U64());
      h.Str(x.get("c03_clause").Str());
    }
    r["hash"] = Hex64(h.Digest());
    *out += r.Dump();
    *out += '\n';
  };
  cb.on_line = [&](const std::string &line) {
    Json j;
    if (!Json::Parse(line, &j)) return;
    results[j.get("n").U64()] = line;
  };
  cb.on_death = [&](const PoolDeath &d) {
    std::string sig, excerpt;
    std::string cls = ClassifyDeath(d, &sig, &excerpt);
    Json r = Json::Object();
    r["t"] = "result";
    r["n"] = static_cast<unsigned long long>(d.idx);
    r["results"] = Json::Array();
    Json cs = Json::Array();
    if (d.in_run && d.tag != 4 && cls != "tolerated_terminate" &&
        cls != "wallclock") {
      Json c = Json::Object();
      const bool in_validation = d.tag == 2;
      c["prop"] = in_validation ? "C03" : "C02";
      c["class"] = in_validation ? "accessor_crash" : "crash";
      c["sig"] = sig;
      c["detail"] = cls;
      c["log"] = excerpt;
      cs.push(c);
    }
    r["cands"] = cs;
    r["died"] = cls;
    Hasher h;
    h.Str(cls);
    h.Str(sig);
    r["hash"] = Hex64(h.Digest());
    if (d.tag == 4) r["writer_died"] = true;
    results[d.idx] = r.Dump();
  };
  PoolOptions po;
  po.workers = workers;
  po.begin = 0;
  po.end = plans.size();
  po.log_dir = log_dir;
  RunPool(po, cb);
  FILE *out = fopen(out_path.c_str(), "w");
  if (!out) return 2;
  for (uint64_t n = 0; n < plans.size(); ++n) {
    auto it = results.find(n);
    if (it == results.end()) {
      fprintf(out, "{\"t\":\"result\",\"n\":%llu,\"missing\":true,\"cands\":[],\"results\":[]}\n",
              static_cast<unsigned long long>(n));
    } else {
      fprintf(out, "%s\n", it->second.c_str());
    }
  }
  fclose(out);
  return 0;
}

}  // namespace sim
