// Common kernel pieces of the simulator: PRNG, hashing, minimal JSON.
// Everything here is deterministic: no clocks, no addresses, no hash-order.
#ifndef VERIF_SIM_COMMON_H_
#define VERIF_SIM_COMMON_H_

#include <cstdint>
#include <cstdio>
#include <cstdlib>
#include <cstring>
#include <map>
#include <memory>
#include <string>
#include <vector>

namespace sim {

// ---------------------------------------------------------------- PRNG ----
inline uint64_t splitmix64(uint64_t *s) {
  uint64_t z = (*s += 0x9E3779B97F4A7C15ull);
  z = (z ^ (z >> 30)) * 0xBF58476D1CE4E5B9ull;
  z = (z ^ (z >> 27)) * 0x94D049BB133111EBull;
  return z ^ (z >> 31);
}

inline uint64_t mix64(uint64_t a, uint64_t b) {
  uint64_t s = a ^ (b * 0x9E3779B97F4A7C15ull + 0x632BE59BD9B4E019ull);
  uint64_t r = splitmix64(&s);
  s ^= b;
  return r ^ splitmix64(&s);
}

inline uint64_t label_hash(const char *label) {
  uint64_t h = 0xcbf29ce484222325ull;
  for (const char *p = label; *p; ++p) {
    h ^= static_cast<uint8_t>(*p);
    h *= 0x100000001b3ull;
  }
  return h;
}

class Rng {
 public:
  explicit Rng(uint64_t seed = 1) { Seed(seed); }
  void Seed(uint64_t seed) {
    uint64_t s = seed;
    for (int i = 0; i < 4; ++i) s_[i] = splitmix64(&s);
  }
  uint64_t Next() {
    const uint64_t result = rotl(s_[1] * 5, 7) * 9;
    const uint64_t t = s_[1] << 17;
    s_[2] ^= s_[0];
    s_[3] ^= s_[1];
    s_[1] ^= s_[2];
    s_[0] ^= s_[3];
    s_[2] ^= t;
    s_[3] = rotl(s_[3], 45);
    return result;
  }
  // Uniform in [0, n). n == 0 -> 0.
  uint64_t Below(uint64_t n) {
    if (n == 0) return 0;
    return Next() % n;
  }
  // Uniform in [lo, hi].
  int64_t Range(int64_t lo, int64_t hi) {
    if (hi <= lo) return lo;
    return lo + static_cast<int64_t>(Below(static_cast<uint64_t>(hi - lo) + 1));
  }
  bool Chance(uint32_t num, uint32_t den) { return Below(den) < num; }
  double Unit() { return (Next() >> 11) * (1.0 / 9007199254740992.0); }
  // Independent stream derived from this stream's *seed identity*, not its
  // position: adding draws in one stream never shifts another.
  Rng Fork(const char *label) const {
    return Rng(mix64(s_[0] ^ rotl(s_[2], 13), label_hash(label)));
  }
  Rng Fork(uint64_t label) const {
    return Rng(mix64(s_[0] ^ rotl(s_[2], 13), label));
  }

 private:
  static uint64_t rotl(uint64_t x, int k) { return (x << k) | (x >> (64 - k)); }
  uint64_t s_[4];
};

// ------------------------------------------------------------- hashing ----
struct Hasher {
  uint64_t a = 0xcbf29ce484222325ull;
  uint64_t b = 0x84222325cbf29ce4ull;
  void Bytes(const void *p, size_t n) {
    const uint8_t *d = static_cast<const uint8_t *>(p);
    for (size_t i = 0; i < n; ++i) {
      a = (a ^ d[i]) * 0x100000001b3ull;
      b = (b + d[i] + 0x9E3779B97F4A7C15ull) * 0xff51afd7ed558ccdull;
      b ^= b >> 29;
    }
  }
  void U64(uint64_t v) { Bytes(&v, 8); }
  void Str(const std::string &s) {
    U64(s.size());
    Bytes(s.data(), s.size());
  }
  uint64_t Digest() const {
    uint64_t s = a ^ (b << 1);
    return mix64(s, b);
  }
};

inline std::string Hex64(uint64_t v) {
  char buf[17];
  snprintf(buf, sizeof(buf), "%016llx", static_cast<unsigned long long>(v));
  return buf;
}

inline std::string HexBytes(const uint8_t *p, size_t n) {
  static const char *d = "0123456789abcdef";
  std::string s;
  s.resize(n * 2);
  for (size_t i = 0; i < n; ++i) {
    s[2 * i] = d[p[i] >> 4];
    s[2 * i + 1] = d[p[i] & 15];
  }
  return s;
}

inline bool UnhexBytes(const std::string &s, std::vector<uint8_t> *out) {
  out->clear();
  if (s.size() % 2) return false;
  auto v = [](char c) -> int {
    if (c >= '0' && c <= '9') return c - '0';
    if (c >= 'a' && c <= 'f') return c - 'a' + 10;
    if (c >= 'A' && c <= 'F') return c - 'A' + 10;
    return -1;
  };
  for (size_t i = 0; i < s.size(); i += 2) {
    int h = v(s[i]), l = v(s[i + 1]);
    if (h < 0 || l < 0) return false;
    out->push_back(static_cast<uint8_t>(h * 16 + l));
  }
  return true;
}

// ---------------------------------------------------------------- JSON ----
// Small ordered JSON value. Objects keep insertion order (vector of pairs) so
// that serialisation is deterministic.
class Json {
 public:
  enum Type { NUL, BOOL, INT, DBL, STR, ARR, OBJ };
  Json() : type_(NUL) {}
  Json(bool b) : type_(BOOL), i_(b) {}
  Json(int v) : type_(INT), i_(v) {}
  Json(unsigned v) : type_(INT), i_(v) {}
  Json(long v) : type_(INT), i_(v) {}
  Json(long long v) : type_(INT), i_(v) {}
  Json(unsigned long v) : type_(INT), i_(static_cast<int64_t>(v)) {}
  Json(unsigned long long v) : type_(INT), i_(static_cast<int64_t>(v)) {}
  Json(double v) : type_(DBL), d_(v) {}
  Json(const char *s) : type_(STR), s_(s) {}
  Json(const std::string &s) : type_(STR), s_(s) {}
  static Json Array() {
    Json j;
    j.type_ = ARR;
    return j;
  }
  static Json Object() {
    Json j;
    j.type_ = OBJ;
    return j;
  }
  Type type() const { return type_; }
  bool is_null() const { return type_ == NUL; }
  bool is_obj() const { return type_ == OBJ; }
  bool is_arr() const { return type_ == ARR; }
  int64_t Int(int64_t def = 0) const {
    if (type_ == INT || type_ == BOOL) return i_;
    if (type_ == DBL) return static_cast<int64_t>(d_);
    return def;
  }
  uint64_t U64(uint64_t def = 0) const {
    if (type_ == STR) return strtoull(s_.c_str(), nullptr, 0);
    return static_cast<uint64_t>(Int(static_cast<int64_t>(def)));
  }
  double Dbl(double def = 0) const {
    if (type_ == DBL) return d_;
    if (type_ == INT) return static_cast<double>(i_);
    return def;
  }
  bool Bool(bool def = false) const {
    if (type_ == BOOL || type_ == INT) return i_ != 0;
    return def;
  }
  const std::string &Str() const { return s_; }
  // Array access.
  size_t size() const { return type_ == ARR ? a_.size() : o_.size(); }
  const Json &at(size_t i) const { return a_[i]; }
  Json &at(size_t i) { return a_[i]; }
  void push(const Json &v) {
    type_ = ARR;
    a_.push_back(v);
  }
  std::vector<Json> &arr() { return a_; }
  const std::vector<Json> &arr() const { return a_; }
  // Object access.
  bool has(const std::string &k) const {
    for (auto &kv : o_)
      if (kv.first == k) return true;
    return false;
  }
  const Json &get(const std::string &k) const {
    static const Json nul;
    for (auto &kv : o_)
      if (kv.first == k) return kv.second;
    return nul;
  }
  Json &operator[](const std::string &k) {
    type_ = OBJ;
    for (auto &kv : o_)
      if (kv.first == k) return kv.second;
    o_.emplace_back(k, Json());
    return o_.back().second;
  }
  void erase(const std::string &k) {
    for (size_t i = 0; i < o_.size(); ++i)
      if (o_[i].first == k) {
        o_.erase(o_.begin() + i);
        return;
      }
  }
  const std::vector<std::pair<std::string, Json>> &items() const { return o_; }

  std::string Dump() const {
    std::string out;
    DumpTo(&out);
    return out;
  }
  void DumpTo(std::string *out) const {
    char buf[64];
    switch (type_) {
      case NUL:
        *out += "null";
        break;
      case BOOL:
        *out += i_ ? "true" : "false";
        break;
      case INT:
        snprintf(buf, sizeof(buf), "%lld", static_cast<long long>(i_));
        *out += buf;
        break;
      case DBL:
        snprintf(buf, sizeof(buf), "%.17g", d_);
        *out += buf;
        break;
      case STR:
        DumpStr(s_, out);
        break;
      case ARR:
        *out += '[';
        for (size_t i = 0; i < a_.size(); ++i) {
          if (i) *out += ',';
          a_[i].DumpTo(out);
        }
        *out += ']';
        break;
      case OBJ:
        *out += '{';
        for (size_t i = 0; i < o_.size(); ++i) {
          if (i) *out += ',';
          DumpStr(o_[i].first, out);
          *out += ':';
          o_[i].second.DumpTo(out);
        }
        *out += '}';
        break;
    }
  }
  static bool Parse(const std::string &text, Json *out) {
    size_t pos = 0;
    if (!ParseValue(text, &pos, out)) return false;
    SkipWs(text, &pos);
    return pos == text.size();
  }

 private:
  static void DumpStr(const std::string &s, std::string *out) {
    *out += '"';
    for (unsigned char c : s) {
      if (c == '"' || c == '\\') {
        *out += '\\';
        *out += static_cast<char>(c);
      } else if (c < 0x20) {
        char buf[8];
        snprintf(buf, sizeof(buf), "\\u%04x", c);
        *out += buf;
      } else {
        *out += static_cast<char>(c);
      }
    }
    *out += '"';
  }
  static void SkipWs(const std::string &t, size_t *p) {
    while (*p < t.size() &&
           (t[*p] == ' ' || t[*p] == '\n' || t[*p] == '\t' || t[*p] == '\r'))
      ++*p;
  }
  static bool ParseValue(const std::string &t, size_t *p, Json *out) {
    SkipWs(t, p);
    if (*p >= t.size()) return false;
    char c = t[*p];
    if (c == '{') {
      ++*p;
      *out = Object();
      SkipWs(t, p);
      if (*p < t.size() && t[*p] == '}') {
        ++*p;
        return true;
      }
      while (true) {
        SkipWs(t, p);
        Json key;
        if (*p >= t.size() || t[*p] != '"' || !ParseStr(t, p, &key.s_))
          return false;
        SkipWs(t, p);
        if (*p >= t.size() || t[*p] != ':') return false;
        ++*p;
        Json val;
        if (!ParseValue(t, p, &val)) return false;
        out->o_.emplace_back(key.s_, val);
        SkipWs(t, p);
        if (*p >= t.size()) return false;
        if (t[*p] == ',') {
          ++*p;
          continue;
        }
        if (t[*p] == '}') {
          ++*p;
          return true;
        }
        return false;
      }
    }
    if (c == '[') {
      ++*p;
      *out = Array();
      SkipWs(t, p);
      if (*p < t.size() && t[*p] == ']') {
        ++*p;
        return true;
      }
      while (true) {
        Json val;
        if (!ParseValue(t, p, &val)) return false;
        out->a_.push_back(val);
        SkipWs(t, p);
        if (*p >= t.size()) return false;
        if (t[*p] == ',') {
          ++*p;
          continue;
        }
        if (t[*p] == ']') {
          ++*p;
          return true;
        }
        return false;
      }
    }
    if (c == '"') {
      out->type_ = STR;
      return ParseStr(t, p, &out->s_);
    }
    if (t.compare(*p, 4, "true") == 0) {
      *p += 4;
      *out = Json(true);
      return true;
    }
    if (t.compare(*p, 5, "false") == 0) {
      *p += 5;
      *out = Json(false);
      return true;
    }
    if (t.compare(*p, 4, "null") == 0) {
      *p += 4;
      *out = Json();
      return true;
    }
    // Number.
    size_t s = *p;
    bool is_dbl = false;
    while (*p < t.size() && (isdigit(static_cast<unsigned char>(t[*p])) ||
                             t[*p] == '-' || t[*p] == '+' || t[*p] == '.' ||
                             t[*p] == 'e' || t[*p] == 'E')) {
      if (t[*p] == '.' || t[*p] == 'e' || t[*p] == 'E') is_dbl = true;
      ++*p;
    }
    if (*p == s) return false;
    std::string num = t.substr(s, *p - s);
    if (is_dbl) {
      *out = Json(strtod(num.c_str(), nullptr));
    } else if (num[0] == '-') {
      *out = Json(static_cast<long long>(strtoll(num.c_str(), nullptr, 10)));
    } else {
      *out = Json(static_cast<unsigned long long>(
          strtoull(num.c_str(), nullptr, 10)));
    }
    return true;
  }
  static bool ParseStr(const std::string &t, size_t *p, std::string *out) {
    ++*p;  // opening quote
    out->clear();
    while (*p < t.size()) {
      char c = t[*p];
      if (c == '"') {
        ++*p;
        return true;
      }
      if (c == '\\') {
        ++*p;
        if (*p >= t.size()) return false;
        char e = t[*p];
        switch (e) {
          case 'n':
            *out += '\n';
            break;
          case 't':
            *out += '\t';
            break;
          case 'r':
            *out += '\r';
            break;
          case 'b':
            *out += '\b';
            break;
          case 'f':
            *out += '\f';
            break;
          case 'u': {
            if (*p + 4 >= t.size()) return false;
            unsigned v = strtoul(t.substr(*p + 1, 4).c_str(), nullptr, 16);
            *out += static_cast<char>(v & 0xff);
            *p += 4;
            break;
          }
          default:
            *out += e;
        }
        ++*p;
        continue;
      }
      *out += c;
      ++*p;
    }
    return false;
  }

  Type type_;
  int64_t i_ = 0;
  double d_ = 0;
  std::string s_;
  std::vector<Json> a_;
  std::vector<std::pair<std::string, Json>> o_;
};

inline bool ReadFile(const std::string &path, std::string *out) {
  FILE *f = fopen(path.c_str(), "rb");
  if (!f) return false;
  out->clear();
  char buf[65536];
  size_t n;
  while ((n = fread(buf, 1, sizeof(buf), f)) > 0) out->append(buf, n);
  fclose(f);
  return true;
}

inline bool WriteFile(const std::string &path, const std::string &data) {
  FILE *f = fopen(path.c_str(), "wb");
  if (!f) return false;
  bool ok = fwrite(data.data(), 1, data.size(), f) == data.size();
  fclose(f);
  return ok;
}

}  // namespace sim

#endif  // VERIF_SIM_COMMON_H_
