// Engine `env` (C06): the environment is the adversary. Inputs (geometries,
// options, streams) stay fixed while the simulator varies what a process does
// not control - content and layout of heap memory, stack residue, libc clock /
// PRNG answers - and the *history* of the objects involved, including
// operations that fail half-way. Every successful operation of a history is
// compared with the same call on fresh objects in the reference environment.
#include <signal.h>
#include <sys/prctl.h>
#include <sys/syscall.h>
#include <sys/wait.h>
#include <sys/time.h>
#include <time.h>
#include <unistd.h>

#include <map>
#include <string>
#include <vector>

#include "alloc.h"
#include "common.h"
#include "draco/compression/decode.h"
#include "draco/compression/encode.h"
#include "draco/compression/expert_encode.h"
#include "draco/compression/mesh/mesh_edgebreaker_decoder.h"
#include "draco/compression/mesh/mesh_edgebreaker_encoder.h"
#include "draco/compression/mesh/mesh_sequential_decoder.h"
#include "draco/compression/mesh/mesh_sequential_encoder.h"
#include "draco/compression/point_cloud/point_cloud_kd_tree_decoder.h"
#include "draco/compression/point_cloud/point_cloud_kd_tree_encoder.h"
#include "draco/compression/point_cloud/point_cloud_sequential_decoder.h"
#include "draco/compression/point_cloud/point_cloud_sequential_encoder.h"
#include "faults.h"
#include "geom.h"
#include "pool.h"
#include "steps.h"
#include "work.h"

// ------------------------------------------------- libc clock / PRNG seam ---
// Defined in the executable, so every call from libdraco.a (and from nothing
// else that matters) lands here. Outside an operation they forward to the
// kernel; inside they are counted and answered from the environment seed.
namespace {
volatile int g_env_op_active = 0;
uint64_t g_env_clock_calls = 0;
uint64_t g_env_seed_state = 1;
uint64_t EnvNext() { return sim::splitmix64(&g_env_seed_state); }
}  // namespace

extern "C" {
int gettimeofday(struct timeval *tv, void *tz) {
  (void)tz;
  if (g_env_op_active) {
    ++g_env_clock_calls;
    if (tv) {
      tv->tv_sec = static_cast<time_t>(EnvNext() % 2000000000ull);
      tv->tv_usec = static_cast<suseconds_t>(EnvNext() % 1000000ull);
    }
    return 0;
  }
  return static_cast<int>(syscall(SYS_gettimeofday, tv, nullptr));
}
int clock_gettime(clockid_t id, struct timespec *ts) {
  if (g_env_op_active) {
    ++g_env_clock_calls;
    if (ts) {
      ts->tv_sec = static_cast<time_t>(EnvNext() % 2000000000ull);
      ts->tv_nsec = static_cast<long>(EnvNext() % 1000000000ull);
    }
    return 0;
  }
  return static_cast<int>(syscall(SYS_clock_gettime, id, ts));
}
time_t time(time_t *t) {
  if (g_env_op_active) {
    ++g_env_clock_calls;
    time_t v = static_cast<time_t>(EnvNext() % 2000000000ull);
    if (t) *t = v;
    return v;
  }
  struct timespec ts;
  syscall(SYS_clock_gettime, CLOCK_REALTIME, &ts);
  if (t) *t = ts.tv_sec;
  return ts.tv_sec;
}
int rand(void) {
  if (g_env_op_active) ++g_env_clock_calls;
  return static_cast<int>(EnvNext() & 0x7fffffff);
}
long random(void) {
  if (g_env_op_active) ++g_env_clock_calls;
  return static_cast<long>(EnvNext() & 0x7fffffff);
}
}

namespace sim {
namespace {

// ---------------------------------------------------------------- plan ----
enum OpKind {
  OP_SETOPTS = 0,     // obj = encoder, opts
  OP_RESET,           // obj = encoder
  OP_ENCODE,          // obj = encoder, geom, buf, append
  OP_EXPERT_NEW,      // obj = expert slot, geom, opts
  OP_EXPERT_ENCODE,   // obj = expert slot, buf, append
  OP_DIRECT_ENCODE,   // geom, opts, buf, append (reusable method encoder)
  OP_DECODE,          // obj = decoder, stream, faults, trail
  OP_SKIP,            // obj = decoder, a = attribute type
  OP_DIRECT_DECODE,   // stream, faults, trail (reusable method decoder)
  OP_BAD_ENCODE,      // obj = encoder, geom, buf: options the encoder rejects
  OP_EXPERT_SETOPTS,  // obj = expert slot, opts (setters on the existing object)
  OP_BUF_WRITE,       // buf, append, a: the caller's own record in the buffer
                      // (bytes + a bit sequence, a&1 = with stored size)
  OP_NUM
};
const char *kOpNames[OP_NUM] = {"setopts",       "reset",         "encode",
                                "expert_new",    "expert_encode", "direct_encode",
                                "decode",        "skip",          "direct_decode",
                                "bad_encode",    "expert_setopts", "buf_write"};

struct Op {
  int kind = 0;
  int obj = 0, geom = 0, buf = 0, stream = 0;
  int append = 0;
  int a = 0;
  int trail = 0;
  uint64_t trail_seed = 0;
  Workload opts;  // only option fields are used
  std::vector<FaultOp> faults;
  Json ToJson() const {
    Json j = Json::Object();
    j["op"] = kOpNames[kind];
    j["obj"] = obj;
    j["geom"] = geom;
    j["buf"] = buf;
    j["stream"] = stream;
    j["append"] = append;
    j["a"] = a;
    j["trail"] = trail;
    j["trail_seed"] = static_cast<unsigned long long>(trail_seed);
    if (kind == OP_SETOPTS || kind == OP_EXPERT_NEW || kind == OP_DIRECT_ENCODE ||
        kind == OP_EXPERT_SETOPTS)
      j["opts"] = opts.ToJson();
    if (!faults.empty()) {
      Json f = Json::Array();
      for (const FaultOp &o : faults) f.push(o.ToJson());
      j["faults"] = f;
    }
    return j;
  }
  static Op FromJson(const Json &j) {
    Op o;
    for (int k = 0; k < OP_NUM; ++k)
      if (j.get("op").Str() == kOpNames[k]) o.kind = k;
    o.obj = static_cast<int>(j.get("obj").Int());
    o.geom = static_cast<int>(j.get("geom").Int());
    o.buf = static_cast<int>(j.get("buf").Int());
    o.stream = static_cast<int>(j.get("stream").Int());
    o.append = static_cast<int>(j.get("append").Int());
    o.a = static_cast<int>(j.get("a").Int());
    o.trail = static_cast<int>(j.get("trail").Int());
    o.trail_seed = j.get("trail_seed").U64();
    if (j.has("opts")) o.opts = Workload::FromJson(j.get("opts"));
    const Json &f = j.get("faults");
    for (size_t i = 0; i < f.size(); ++i) o.faults.push_back(FaultOp::FromJson(f.at(i)));
    return o;
  }
};

struct EnvPlan {
  std::vector<Workload> geoms;        // geometry + the options its stream uses
  std::vector<std::string> corpus;    // corpus files used as extra streams
  std::vector<Op> ops;
  int envs = 3;
  uint64_t env_seed = 1;
  Json ToJson() const {
    Json j = Json::Object();
    j["engine"] = "env";
    Json g = Json::Array();
    for (const Workload &w : geoms) g.push(w.ToJson());
    j["geoms"] = g;
    Json c = Json::Array();
    for (const std::string &s : corpus) c.push(s);
    j["corpus"] = c;
    Json o = Json::Array();
    for (const Op &op : ops) o.push(op.ToJson());
    j["ops"] = o;
    j["envs"] = envs;
    j["env_seed"] = static_cast<unsigned long long>(env_seed);
    return j;
  }
  static EnvPlan FromJson(const Json &j) {
    EnvPlan p;
    for (size_t i = 0; i < j.get("geoms").size(); ++i)
      p.geoms.push_back(Workload::FromJson(j.get("geoms").at(i)));
    for (size_t i = 0; i < j.get("corpus").size(); ++i)
      p.corpus.push_back(j.get("corpus").at(i).Str());
    for (size_t i = 0; i < j.get("ops").size(); ++i)
      p.ops.push_back(Op::FromJson(j.get("ops").at(i)));
    p.envs = static_cast<int>(j.get("envs").Int(3));
    p.env_seed = j.get("env_seed").U64(1);
    return p;
  }
};

void CopyOptions(const Workload &from, Workload *to) {
  to->expert = from.expert;
  to->method = from.method;
  to->eb_method = from.eb_method;
  to->espeed = from.espeed;
  to->dspeed = from.dspeed;
  for (int i = 0; i < 5; ++i) {
    to->qb[i] = from.qb[i];
    to->pred[i] = from.pred[i];
    to->xq[i] = from.xq[i];
  }
  to->split = from.split;
  to->builtin = from.builtin;
  to->compress_conn = from.compress_conn;
  to->sym_method = from.sym_method;
  to->track = from.track;
  to->nofeat = from.nofeat;
  to->xo = from.xo;
}

EnvPlan GeneratePlan(uint64_t seed, int size_class_max,
                     const std::vector<std::string> &corpus_files) {
  EnvPlan p;
  Rng r(seed);
  p.env_seed = r.Next() >> 2;
  const int ng = static_cast<int>(r.Range(1, 3));
  for (int i = 0; i < ng; ++i) {
    int sc = (size_class_max > 0 && r.Chance(1, 4)) ? 1 : 0;
    Workload w = GenerateWorkload(r.Fork(100 + i), sc, r.Chance(2, 3) ? 0 : 1);
    if (w.n > 600) w.n = 600;
    p.geoms.push_back(w);
  }
  // A sixth of the plans use geometry that compresses to almost nothing
  // (regular lattices, identical points, position only): the streams in which
  // "how many bytes are left" is smallest relative to the declared counts.
  const bool compressible = r.Fork("compressible").Chance(1, 6);
  if (compressible) {
    for (size_t i = 0; i < p.geoms.size(); ++i) {
      Workload &w = p.geoms[i];
      Rng rc = r.Fork(500 + i);
      w.jit = 0;
      w.n = static_cast<int>(rc.Range(100, 600));
      w.atts.resize(rc.Chance(1, 2) ? 1 : std::min<size_t>(w.atts.size(), 2));
      w.atts[0].dt = draco::DT_FLOAT32;
      w.meta = 0;
      w.qb[0] = static_cast<int>(rc.Range(8, 14));
      w.xq[0] = 0;
      w.expert = 0;
      if (w.kind == 0) {
        w.topo = 0;
        w.method = rc.Chance(2, 3) ? 0 : 1;
        w.compress_conn = 1;
      } else {
        w.topo = 3 + static_cast<int>(rc.Below(2));
        w.method = rc.Chance(2, 3) ? 0 : 1;
      }
      w.espeed = w.dspeed = static_cast<int>(rc.Range(0, 9));
    }
  }
  // Explicit quantization promises values inside the caller's box: the
  // geometries of one plan are all built for the same set of boxed attribute
  // types, and option sets may request a box only for those types.
  int plan_xq[5];
  for (int t = 0; t < 5; ++t) {
    plan_xq[t] = p.geoms[0].xq[t];
    for (Workload &w : p.geoms) w.xq[t] = (plan_xq[t] > 0 && t != 1) ? plan_xq[t] : 0;
  }
  for (Workload &w : p.geoms)
    for (int t = 0; t < 5; ++t)
      if (w.xq[t] > 0 && w.qb[t] <= 0) w.qb[t] = 10;
  if (!corpus_files.empty()) {
    const int nc = static_cast<int>(r.Range(0, 2));
    for (int i = 0; i < nc; ++i)
      p.corpus.push_back(corpus_files[r.Below(corpus_files.size())]);
  }
  const int nstreams = ng + static_cast<int>(p.corpus.size());
  const int nops = static_cast<int>(r.Range(2, 12));
  // A quarter of the plans follow a reuse scenario instead of a free mix: one
  // long-lived object, option changes between its uses (the histories in which
  // leaked state can matter at all).
  const uint64_t scenario = r.Fork("scenario").Below(12);
  auto speed_opts = [&](Rng ro, int kind) {
    Workload s;
    s.kind = kind;
    const uint64_t c = ro.Below(4);
    s.espeed = c == 0 ? 10 : static_cast<int>(ro.Range(0, 10));
    s.dspeed = c == 1 ? 10 : (ro.Chance(1, 2) ? s.espeed : static_cast<int>(ro.Range(0, 10)));
    return s;
  };
  if (scenario < 3) {
    const int g = static_cast<int>(r.Fork("sg").Below(ng));
    const int slot = static_cast<int>(r.Fork("ss").Below(2));
    for (int i = 0; i < nops; ++i) {
      Rng ro = r.Fork(2000 + i);
      Op op;
      op.geom = g;
      op.obj = slot;
      op.buf = static_cast<int>(ro.Below(2));
      op.append = ro.Chance(1, 4);
      if (scenario == 0) {
        // ExpertEncoder reuse.
        if (i == 0) {
          op.kind = OP_EXPERT_NEW;
          Workload o = GenerateWorkload(ro.Fork("opts"), 0, p.geoms[g].kind);
          CopyOptions(o, &op.opts);
          if (ro.Chance(2, 3)) op.opts.method = -1;
        } else if (i % 2 == 0 && ro.Chance(3, 4)) {
          op.kind = OP_EXPERT_SETOPTS;
          op.opts = speed_opts(ro.Fork("sp"), p.geoms[g].kind);
        } else {
          op.kind = OP_EXPERT_ENCODE;
        }
      } else if (scenario == 1) {
        // Encoder reuse with option changes, resets and rejected encodes.
        const uint64_t c = ro.Below(10);
        if (i % 2 == 0 && c < 7) {
          op.kind = OP_SETOPTS;
          if (ro.Chance(1, 2)) {
            op.opts = speed_opts(ro.Fork("sp"), p.geoms[g].kind);
          } else {
            Workload o = GenerateWorkload(ro.Fork("opts"), 0, p.geoms[g].kind);
            CopyOptions(o, &op.opts);
          }
        } else if (c == 7) {
          op.kind = OP_RESET;
        } else if (c == 8) {
          op.kind = OP_BAD_ENCODE;
        } else {
          op.kind = OP_ENCODE;
          op.geom = static_cast<int>(ro.Below(ng));
        }
      } else {
        // Reusable method encoder / decoder objects across different inputs.
        op.geom = static_cast<int>(ro.Below(ng));
        op.stream = static_cast<int>(ro.Below(nstreams));
        if (ro.Chance(1, 2)) {
          op.kind = OP_DIRECT_ENCODE;
          Workload o = GenerateWorkload(ro.Fork("opts"), 0, p.geoms[op.geom].kind);
          CopyOptions(o, &op.opts);
        } else {
          op.kind = OP_DIRECT_DECODE;
          if (ro.Chance(1, 3)) {
            std::vector<const std::vector<uint8_t> *> none;
            op.faults = RandomFaultPlan(ro.Fork("fault"), 300, none);
          }
        }
      }
      op.opts.kind = p.geoms[op.geom].kind;
      for (int t = 0; t < 5; ++t)
        if (plan_xq[t] <= 0 || t == 1) op.opts.xq[t] = 0;
      p.ops.push_back(op);
      if (scenario == 1 && op.kind == OP_SETOPTS && ro.Fork("supersede").Chance(1, 2)) {
        // The same setters again with other values (later call wins).
        Op op2 = op;
        op2.a = 1;
        Rng rs = ro.Fork("supersede-values");
        op2.opts.xo = (op.opts.xo + 1 + static_cast<int>(rs.Below(3))) & 3;
        for (int t = 0; t < 5; ++t)
          if (op2.opts.qb[t] > 0)
            op2.opts.qb[t] = op2.opts.qb[t] >= 18 ? 17 : op2.opts.qb[t] + 1;
        if (op2.opts.espeed >= 0) {
          op2.opts.espeed = (op2.opts.espeed + 3) % 11;
          op2.opts.dspeed = op2.opts.espeed;
        }
        p.ops.push_back(op2);
      }
    }
    return p;
  }
  bool expert_ready[2] = {false, false};
  for (int i = 0; i < nops; ++i) {
    Op op;
    Rng ro = r.Fork(1000 + i);
    const uint64_t pick = ro.Below(100);
    op.geom = static_cast<int>(ro.Below(ng));
    op.buf = static_cast<int>(ro.Below(2));
    op.append = ro.Chance(1, 3);
    op.stream = static_cast<int>(ro.Below(nstreams));
    if (pick < 12) {
      op.kind = OP_SETOPTS;
      op.obj = static_cast<int>(ro.Below(2));
      Workload o = GenerateWorkload(ro.Fork("opts"), 0, p.geoms[op.geom].kind);
      CopyOptions(o, &op.opts);
      op.opts.kind = p.geoms[op.geom].kind;
    } else if (pick < 16) {
      op.kind = OP_RESET;
      op.obj = static_cast<int>(ro.Below(2));
    } else if (pick < 34) {
      op.kind = OP_ENCODE;
      op.obj = static_cast<int>(ro.Below(2));
    } else if (pick < 38) {
      op.kind = OP_BUF_WRITE;
      op.a = static_cast<int>(ro.Below(128));
      op.trail_seed = ro.Next() >> 2;
    } else if (pick < 44) {
      op.kind = OP_EXPERT_NEW;
      op.obj = static_cast<int>(ro.Below(2));
      Workload o = GenerateWorkload(ro.Fork("opts"), 0, p.geoms[op.geom].kind);
      CopyOptions(o, &op.opts);
      op.opts.kind = p.geoms[op.geom].kind;
      expert_ready[op.obj] = true;
    } else if (pick < 54) {
      op.kind = ro.Chance(1, 3) ? OP_EXPERT_SETOPTS : OP_EXPERT_ENCODE;
      op.obj = static_cast<int>(ro.Below(2));
      if (!expert_ready[op.obj]) {
        op.kind = OP_ENCODE;
      } else if (op.kind == OP_EXPERT_SETOPTS) {
        Workload o = GenerateWorkload(ro.Fork("opts"), 0, p.geoms[op.geom].kind);
        CopyOptions(o, &op.opts);
        op.opts.kind = p.geoms[op.geom].kind;
        // Mostly a small change, as a caller would make: speed only.
        if (ro.Chance(2, 3)) {
          Workload only_speed;
          only_speed.kind = op.opts.kind;
          only_speed.espeed = o.espeed < 0 ? 10 : o.espeed;
          only_speed.dspeed = ro.Chance(1, 2) ? only_speed.espeed : 10;
          if (ro.Chance(1, 3)) only_speed.espeed = only_speed.dspeed = 10;
          op.opts = only_speed;
        }
      }
    } else if (pick < 64) {
      op.kind = OP_DIRECT_ENCODE;
      Workload o = GenerateWorkload(ro.Fork("opts"), 0, p.geoms[op.geom].kind);
      CopyOptions(o, &op.opts);
      op.opts.kind = p.geoms[op.geom].kind;
    } else if (pick < 82) {
      op.kind = OP_DECODE;
      op.obj = static_cast<int>(ro.Below(2));
      op.a = static_cast<int>(ro.Below(2));  // 0 FromBuffer, 1 ToGeometry
    } else if (pick < 86) {
      op.kind = OP_SKIP;
      op.obj = static_cast<int>(ro.Below(2));
      op.a = static_cast<int>(ro.Below(5));
    } else if (pick < 96) {
      op.kind = OP_DIRECT_DECODE;
    } else {
      op.kind = OP_BAD_ENCODE;
      op.obj = static_cast<int>(ro.Below(2));
    }
    for (int t = 0; t < 5; ++t) {
      // Boxes only where the geometries were built for one; other dimension
      // counts than the geometry's own are fine (fewer, equal, more).
      if (plan_xq[t] <= 0 || t == 1) {
        op.opts.xq[t] = 0;
      } else if (op.opts.qb[t] > 0 && op.opts.xq[t] <= 0 && ro.Fork(t).Chance(1, 2)) {
        op.opts.xq[t] = static_cast<int>(ro.Fork(50 + t).Range(1, 4));
      }
    }
    if (op.kind == OP_DECODE || op.kind == OP_DIRECT_DECODE) {
      if (ro.Chance(1, 3)) {
        // The history's "crash": a faulted stream abandons the decoder
        // half-way; the object is used again afterwards.
        std::vector<const std::vector<uint8_t> *> none;
        op.faults = RandomFaultPlan(ro.Fork("fault"), 300, none);
      } else if (ro.Chance(1, 3) || (compressible && ro.Chance(1, 2))) {
        // A few bytes, or (a third of the time) a lot of them.
        op.trail = ro.Chance(1, 3) ? static_cast<int>(ro.Range(256, 8192))
                                   : static_cast<int>(ro.Range(1, 40));
        op.trail_seed = ro.Next() >> 2;
      }
    }
    p.ops.push_back(op);
  }
  return p;
}

// ------------------------------------------------------------ execution ---
struct OpResult {
  int ran = 0;
  int ok = 0;
  int code = 0;
  uint64_t h = 0;        // hash of produced bytes / geometry digest
  int64_t remaining = 0; // decode: remaining_size
  uint64_t n1 = 0, n2 = 0;  // encoder: num_encoded_points / faces
  uint64_t prefix_h = 0;    // append: hash of the bytes that were there before
  uint64_t clock_calls = 0;
  int abandoned = 0;  // step budget exhausted: the plan gives no verdict
  void Hash(Hasher *hs) const {
    hs->U64(ran);
    hs->U64(ok);
    hs->U64(code);
    hs->U64(h);
    hs->U64(static_cast<uint64_t>(remaining));
    hs->U64(n1);
    hs->U64(n2);
    hs->U64(prefix_h);
  }
};

__attribute__((noinline)) void ScribbleStack(uint64_t seed, bool zero) {
  volatile uint8_t junk[192 * 1024];
  uint64_t s = seed;
  for (size_t i = 0; i < sizeof(junk); i += 8) {
    uint64_t v = zero ? 0 : splitmix64(&s);
    for (int k = 0; k < 8; ++k) junk[i + k] = static_cast<uint8_t>(v >> (8 * k));
  }
  asm volatile("" : : "r"(junk) : "memory");
}

uint64_t HashBytes(const char *p, size_t n) {
  Hasher h;
  h.Bytes(p, n);
  h.U64(n);
  return h.Digest();
}

struct Env {
  int id = 0;          // 0 = reference environment
  uint64_t seed = 0;
};

struct Materials {
  std::vector<std::unique_ptr<draco::PointCloud>> geoms;
  std::vector<std::vector<uint8_t>> streams;
};

int DirectKind(const Workload &geom, const Workload &opts) {
  // 0 mesh edgebreaker, 1 mesh sequential, 2 pc sequential, 3 pc kd-tree
  if (geom.kind == 0) return opts.method == 0 ? 1 : 0;
  return opts.method == 1 ? 3 : 2;
}

int StreamDirectKind(const std::vector<uint8_t> &b) {
  if (b.size() < 11) return 2;
  if (b[7] == 1) return b[8] == 0 ? 1 : 0;
  return b[8] == 1 ? 3 : 2;
}

// The objects of one history (or, for the reference, of one op).
struct Objects {
  std::unique_ptr<draco::Encoder> enc[2];
  std::unique_ptr<draco::ExpertEncoder> exp[2];
  int exp_geom[2] = {-1, -1};
  std::unique_ptr<draco::Decoder> dec[2];
  draco::EncoderBuffer buf[2];
  draco::MeshEdgebreakerEncoder eb_enc;
  draco::MeshSequentialEncoder seq_enc;
  draco::PointCloudSequentialEncoder pcs_enc;
  draco::PointCloudKdTreeEncoder pck_enc;
  draco::MeshEdgebreakerDecoder eb_dec;
  draco::MeshSequentialDecoder seq_dec;
  draco::PointCloudSequentialDecoder pcs_dec;
  draco::PointCloudKdTreeDecoder pck_dec;
  Objects() {
    for (int i = 0; i < 2; ++i) {
      enc[i].reset(new draco::Encoder());
      dec[i].reset(new draco::Decoder());
    }
  }
};

// Model of the persistent option state the API documents.
struct Model {
  std::vector<Workload> enc_opts[2];  // SetOpts since the last Reset
  std::vector<Workload> exp_opts[2];
  int exp_geom[2] = {-1, -1};
  int skip_mask[2] = {0, 0};
};

std::vector<uint8_t> FaultedStream(const Materials &m, const Op &op) {
  std::vector<uint8_t> b = m.streams[op.stream % m.streams.size()];
  if (!op.faults.empty()) ApplyFaults(op.faults, &b);
  if (op.trail > 0) {
    uint64_t s = op.trail_seed;
    for (int i = 0; i < op.trail; ++i) b.push_back(static_cast<uint8_t>(splitmix64(&s)));
  }
  return b;
}

void FinishEncode(const draco::Status &st, draco::EncoderBuffer *buf,
                  size_t size_before, uint64_t prefix_before, OpResult *r) {
  r->ok = st.ok();
  r->code = static_cast<int>(st.code());
  if (st.ok()) {
    if (buf->size() >= size_before) {
      r->h = HashBytes(buf->data() + size_before, buf->size() - size_before);
      r->prefix_h = HashBytes(buf->data(), size_before) ^ prefix_before;
    } else {
      r->h = 0xbadbadbad;
    }
  }
}

// Executes op |k| on |o| (whose option state is assumed to be what the model
// says). Everything environment dependent happens inside this function.
void ExecOp(const EnvPlan &p, const Materials &m, const Op &op, Objects *o,
            OpResult *r) {
  r->ran = 1;
  const Workload &gw = p.geoms[op.geom % p.geoms.size()];
  const draco::PointCloud &g = *m.geoms[op.geom % m.geoms.size()];
  switch (op.kind) {
    case OP_SETOPTS:
      ApplyOptions(op.opts, o->enc[op.obj].get());
      r->ok = 1;
      break;
    case OP_RESET:
      o->enc[op.obj]->Reset();
      r->ok = 1;
      break;
    case OP_BAD_ENCODE:
    case OP_ENCODE: {
      draco::EncoderBuffer *b = &o->buf[op.buf];
      if (!op.append) b->Clear();
      const size_t before = b->size();
      const uint64_t ph = HashBytes(b->data(), before);
      draco::Status st;
      draco::Encoder *e = o->enc[op.obj].get();
      if (gw.kind == 0) {
        st = e->EncodeMeshToBuffer(static_cast<const draco::Mesh &>(g), b);
      } else {
        st = e->EncodePointCloudToBuffer(g, b);
      }
      FinishEncode(st, b, before, ph, r);
      r->n1 = e->num_encoded_points();
      r->n2 = e->num_encoded_faces();
      break;
    }
    case OP_EXPERT_NEW: {
      if (gw.kind == 0) {
        o->exp[op.obj].reset(
            new draco::ExpertEncoder(static_cast<const draco::Mesh &>(g)));
      } else {
        o->exp[op.obj].reset(new draco::ExpertEncoder(g));
      }
      ApplyOptions(op.opts, g, o->exp[op.obj].get());
      o->exp_geom[op.obj] = op.geom;
      r->ok = 1;
      break;
    }
    case OP_EXPERT_SETOPTS: {
      if (!o->exp[op.obj] || o->exp_geom[op.obj] < 0) break;
      ApplyOptions(op.opts, *m.geoms[o->exp_geom[op.obj] % m.geoms.size()],
                   o->exp[op.obj].get());
      r->ok = 1;
      break;
    }
    case OP_EXPERT_ENCODE: {
      if (!o->exp[op.obj]) break;
      draco::EncoderBuffer *b = &o->buf[op.buf];
      if (!op.append) b->Clear();
      const size_t before = b->size();
      const uint64_t ph = HashBytes(b->data(), before);
      draco::Status st = o->exp[op.obj]->EncodeToBuffer(b);
      FinishEncode(st, b, before, ph, r);
      r->n1 = o->exp[op.obj]->num_encoded_points();
      r->n2 = o->exp[op.obj]->num_encoded_faces();
      break;
    }
    case OP_DIRECT_ENCODE: {
      draco::EncoderBuffer *b = &o->buf[op.buf];
      if (!op.append) b->Clear();
      const size_t before = b->size();
      const uint64_t ph = HashBytes(b->data(), before);
      // Options in the form the method encoders take them.
      draco::Encoder tmp;
      ApplyOptions(op.opts, &tmp);
      draco::EncoderOptions eo = tmp.CreateExpertEncoderOptions(g);
      draco::Status st;
      switch (DirectKind(gw, op.opts)) {
        case 0:
          o->eb_enc.SetMesh(static_cast<const draco::Mesh &>(g));
          st = o->eb_enc.Encode(eo, b);
          r->n1 = o->eb_enc.num_encoded_points();
          r->n2 = o->eb_enc.num_encoded_faces();
          break;
        case 1:
          o->seq_enc.SetMesh(static_cast<const draco::Mesh &>(g));
          st = o->seq_enc.Encode(eo, b);
          r->n1 = o->seq_enc.num_encoded_points();
          r->n2 = o->seq_enc.num_encoded_faces();
          break;
        case 2:
          o->pcs_enc.SetPointCloud(g);
          st = o->pcs_enc.Encode(eo, b);
          r->n1 = o->pcs_enc.num_encoded_points();
          break;
        default:
          o->pck_enc.SetPointCloud(g);
          st = o->pck_enc.Encode(eo, b);
          r->n1 = o->pck_enc.num_encoded_points();
          break;
      }
      FinishEncode(st, b, before, ph, r);
      break;
    }
    case OP_BUF_WRITE: {
      // What a caller that frames several records in one buffer does through
      // the buffer's public interface between two encodes.
      draco::EncoderBuffer *b = &o->buf[op.buf];
      if (!op.append) b->Clear();
      const uint32_t tag = 0xC0DEC0DEu;
      b->Encode(tag);
      const int nbits = 8 + (op.a >> 1) % 48;
      if (b->StartBitEncoding(nbits, (op.a & 1) != 0)) {
        for (int i = 0; i < nbits; ++i)
          b->EncodeLeastSignificantBits32(
              1, static_cast<uint32_t>((op.trail_seed >> (i % 61)) & 1));
        b->EndBitEncoding();
      }
      r->ok = 1;
      break;
    }
    case OP_SKIP:
      o->dec[op.obj]->SetSkipAttributeTransform(
          static_cast<draco::GeometryAttribute::Type>(op.a));
      r->ok = 1;
      break;
    case OP_DECODE: {
      const std::vector<uint8_t> bytes = FaultedStream(m, op);
      draco::DecoderBuffer db;
      db.Init(reinterpret_cast<const char *>(bytes.data()), bytes.size());
      draco::Decoder *d = o->dec[op.obj].get();
      const bool mesh_stream = bytes.size() > 7 && bytes[7] == 1;
      std::unique_ptr<draco::Mesh> mesh;
      std::unique_ptr<draco::PointCloud> pc;
      draco::Status st;
      if (op.a == 0) {
        if (mesh_stream) {
          auto s = d->DecodeMeshFromBuffer(&db);
          st = s.status();
          if (s.ok()) mesh = std::move(s).value();
        } else {
          auto s = d->DecodePointCloudFromBuffer(&db);
          st = s.status();
          if (s.ok()) pc = std::move(s).value();
        }
      } else {
        if (mesh_stream) {
          mesh.reset(new draco::Mesh());
          st = d->DecodeBufferToGeometry(&db, mesh.get());
        } else {
          pc.reset(new draco::PointCloud());
          st = d->DecodeBufferToGeometry(&db, pc.get());
        }
      }
      r->ok = st.ok();
      r->code = static_cast<int>(st.code());
      if (st.ok()) {
        r->remaining = db.remaining_size();
        const draco::PointCloud *g2 = mesh ? mesh.get() : pc.get();
        std::string detail;
        if (g2 && ValidateGeometry(*g2, mesh.get(), false, &detail).empty())
          r->h = GeometryDigest(*g2, mesh.get());
      }
      break;
    }
    case OP_DIRECT_DECODE: {
      const std::vector<uint8_t> bytes = FaultedStream(m, op);
      draco::DecoderBuffer db;
      db.Init(reinterpret_cast<const char *>(bytes.data()), bytes.size());
      draco::DecoderOptions dopt;
      std::unique_ptr<draco::Mesh> mesh;
      std::unique_ptr<draco::PointCloud> pc;
      draco::Status st;
      switch (StreamDirectKind(m.streams[op.stream % m.streams.size()])) {
        case 0:
          mesh.reset(new draco::Mesh());
          st = o->eb_dec.Decode(dopt, &db, mesh.get());
          break;
        case 1:
          mesh.reset(new draco::Mesh());
          st = o->seq_dec.Decode(dopt, &db, mesh.get());
          break;
        case 2:
          pc.reset(new draco::PointCloud());
          st = o->pcs_dec.Decode(dopt, &db, pc.get());
          break;
        default:
          pc.reset(new draco::PointCloud());
          st = o->pck_dec.Decode(dopt, &db, pc.get());
          break;
      }
      r->ok = st.ok();
      r->code = static_cast<int>(st.code());
      if (st.ok()) {
        r->remaining = db.remaining_size();
        const draco::PointCloud *g2 = mesh ? mesh.get() : pc.get();
        std::string detail;
        if (g2 && ValidateGeometry(*g2, mesh.get(), false, &detail).empty())
          r->h = GeometryDigest(*g2, mesh.get());
      }
      break;
    }
    default:
      break;
  }
}

// Runs one op inside the environment: allocator perturbation, stack residue,
// clock answers. Exceptions (there should be none: no budget is active) are
// recorded as a failed op.
void ExecOpInEnv(const EnvPlan &p, const Materials &m, const Op &op,
                 Objects *o, const Env &env, size_t k, OpResult *r) {
  AllocConfig ac;
  // Every environment owns the content of fresh memory, the reference one
  // included (zeros: what a fresh process mostly sees) - otherwise the
  // reference itself would depend on what malloc happens to recycle.
  ac.perturb = true;
  if (env.id != 0) {
    ac.fill_mode = env.id == 1 ? 3 : (env.id == 2 ? 2 : 0);
    ac.env_seed = mix64(env.seed, k);
    ac.quarantine = (env.id % 2) == 0;
    // One environment in three places objects at descending addresses.
    ac.descending = (env.id % 3) == 2;
    ScribbleStack(mix64(env.seed, 0x57ac0000 + k), false);
  } else {
    ac.fill_mode = 1;
    ac.pad = false;
    ScribbleStack(0, true);
  }
  if (AllocArenaEverywhere()) ac.ascending = !ac.descending;
  g_env_seed_state = mix64(env.seed, 0xc10c0000 + k);
  const uint64_t clock_before = g_env_clock_calls;
  // Containment of the harness itself (not an oracle): a faulted stream may
  // declare gigabytes or loop for minutes. A refused allocation makes the op
  // fail deterministically; an exhausted step budget abandons the plan.
  ac.active = true;
  ac.budget = 256ull << 20;
  StepsConfig sc;
  sc.budget = 400000000ull;
  sc.lasso = false;
  AllocBegin(ac);
  StepsArm(sc);
  const int v = sigsetjmp(g_steps_jmp, 0);
  if (v == 0) {
    g_env_op_active = 1;
    try {
      StepsStart();
      ExecOp(p, m, op, o, r);
      StepsStop();
    } catch (const std::exception &e) {
      StepsStop();
      r->ok = 0;
      r->code = -77;
    }
    g_env_op_active = 0;
    AllocEnd(false);
  } else {
    g_env_op_active = 0;
    AllocEnd(false);  // leaked on purpose: objects of the history point into it
    r->abandoned = 1;
  }
  r->clock_calls = g_env_clock_calls - clock_before;
}

bool Materialise(const EnvPlan &p, const std::string &repo, Materials *m) {
  for (const Workload &w : p.geoms) {
    std::unique_ptr<draco::PointCloud> g = BuildGeometry(w);
    if (!g) return false;
    std::vector<uint8_t> bytes;
    std::string err;
    if (!EncodeGeometry(w, *g, &bytes, &err)) {
      // Options the encoder rejects: fall back to default options for the
      // stream (the geometry itself stays in the plan).
      Workload d = w;
      Workload def;
      CopyOptions(def, &d);
      if (d.kind == 1) {
        d.method = 0;
      }
      if (!EncodeGeometry(d, *g, &bytes, &err)) return false;
    }
    m->geoms.push_back(std::move(g));
    m->streams.push_back(std::move(bytes));
  }
  for (const std::string &f : p.corpus) {
    std::string s;
    if (!ReadFile(repo + "/testdata/" + f, &s) || s.empty()) continue;
    m->streams.emplace_back(s.begin(), s.end());
  }
  return !m->streams.empty();
}

// Makes the options of BAD_ENCODE ops something the encoder must reject.
Workload BadOptions(const Workload &geom) {
  Workload w;
  w.kind = geom.kind;
  if (geom.kind == 1) {
    w.method = 1;  // kd-tree on unquantized floats
  } else {
    w.pred[1] = 5;  // tex-coord predictor on normals: setter rejects (no-op)
    w.method = 1;
    w.eb_method = 7;  // unknown edgebreaker method
  }
  return w;
}

struct Finding {
  std::string prop = "C06";
  std::string cls, sig, detail;
  size_t op = 0;
};

std::string OpSig(const EnvPlan &p, const Materials &m, const Op &op) {
  std::string s = kOpNames[op.kind];
  const Workload &gw = p.geoms[op.geom % p.geoms.size()];
  if (op.kind == OP_ENCODE || op.kind == OP_EXPERT_ENCODE ||
      op.kind == OP_DIRECT_ENCODE || op.kind == OP_BAD_ENCODE) {
    s += gw.kind == 0 ? "|mesh" : "|pc";
  } else if (op.kind == OP_DECODE || op.kind == OP_DIRECT_DECODE) {
    static const char *dk[4] = {"|eb", "|seq", "|pcseq", "|pckd"};
    s += dk[StreamDirectKind(m.streams[op.stream % m.streams.size()])];
    if (!op.faults.empty()) s += "|faulted";
  }
  return s;
}

// Executes the plan: reference model op by op, then the whole history under
// each environment. Returns the event-log hash; findings are appended.
// Process isolation (builds without ASan): the plan runs in a child of the
// worker, its input streams are encoded in a helper child, and every reference
// op runs in a child of its own, so that each reference is the FIRST codec call
// of its process. State that an earlier call leaves behind in the process (a
// guarded static initialised from the first caller's arguments, a memo keyed too
// coarsely) then differs between the history and the reference instead of
// cancelling out.
bool EnvReadAll(int fd, std::string *out) {
  char buf[65536];
  for (;;) {
    const ssize_t n = read(fd, buf, sizeof(buf));
    if (n < 0 && errno == EINTR) continue;
    if (n <= 0) return true;
    out->append(buf, static_cast<size_t>(n));
  }
}
void EnvWriteAll(int fd, const void *data, size_t size) {
  const char *p = static_cast<const char *>(data);
  while (size) {
    const ssize_t n = write(fd, p, size);
    if (n < 0 && errno == EINTR) continue;
    if (n <= 0) return;
    p += n;
    size -= static_cast<size_t>(n);
  }
}
// A child died: die the same way, so that whoever watches this process (in the
// end the pool, which classifies deaths from the common stderr log) sees it.
[[noreturn]] void EnvDieLike(int status) {
  fflush(nullptr);
  if (WIFSIGNALED(status)) {
    signal(WTERMSIG(status), SIG_DFL);
    raise(WTERMSIG(status));
    _exit(128 + WTERMSIG(status));
  }
  _exit(WEXITSTATUS(status) ? WEXITSTATUS(status) : 70);
}

bool MaterialiseStreamsInChild(const EnvPlan &p, const std::string &repo,
                               std::vector<std::vector<uint8_t>> *streams) {
  int fd[2];
  if (pipe(fd) != 0) abort();
  fflush(nullptr);
  const pid_t pid = fork();
  if (pid == 0) {
    prctl(PR_SET_PDEATHSIG, SIGKILL);
    close(fd[0]);
    Materials mm;
    std::string blob;
    if (Materialise(p, repo, &mm)) {
      for (const std::vector<uint8_t> &b : mm.streams) {
        const uint64_t n = b.size();
        blob.append(reinterpret_cast<const char *>(&n), 8);
        blob.append(reinterpret_cast<const char *>(b.data()), b.size());
      }
    }
    EnvWriteAll(fd[1], blob.data(), blob.size());
    _exit(0);
  }
  close(fd[1]);
  std::string blob;
  EnvReadAll(fd[0], &blob);
  close(fd[0]);
  int status = 0;
  waitpid(pid, &status, 0);
  if (!WIFEXITED(status) || WEXITSTATUS(status) != 0) EnvDieLike(status);
  size_t pos = 0;
  while (pos + 8 <= blob.size()) {
    uint64_t n;
    memcpy(&n, blob.data() + pos, 8);
    pos += 8;
    if (pos + n > blob.size()) return false;
    streams->emplace_back(blob.begin() + pos, blob.begin() + pos + n);
    pos += n;
  }
  return !streams->empty();
}

uint64_t RunPlan(const EnvPlan &p, const std::string &repo,
                 std::vector<Finding> *findings, Json *trace, uint64_t *n_calls,
                 uint64_t *reused_ops, bool *abandoned, bool cold_refs = false) {
  *abandoned = false;
  Materials m;
  Hasher log;
  AllocArenaReset();
  // The plan's inputs are produced in the reference environment as well.
  AllocConfig mc;
  mc.perturb = true;
  mc.fill_mode = 1;
  mc.pad = false;
  mc.ascending = AllocArenaEverywhere();
  bool have_materials;
  if (cold_refs) {
    have_materials = MaterialiseStreamsInChild(p, repo, &m.streams);
    AllocBegin(mc);
    ScribbleStack(0, true);
    for (const Workload &w : p.geoms) {
      std::unique_ptr<draco::PointCloud> g = BuildGeometry(w);
      if (!g) have_materials = false;
      m.geoms.push_back(std::move(g));
    }
    AllocEnd(false);
  } else {
    AllocBegin(mc);
    ScribbleStack(0, true);
    have_materials = Materialise(p, repo, &m);
    AllocEnd(false);
  }
  if (!have_materials) {
    log.U64(0xdead);
    return log.Digest();
  }
  const size_t n = p.ops.size();
  // Patch BAD_ENCODE ops into SETOPTS(bad)+ENCODE semantics at execution time.
  // ---- reference: each op on fresh objects configured from the model ----
  std::vector<OpResult> ref(n);
  {
    Model model;
    Env e0;
    e0.seed = p.env_seed;
    for (size_t k = 0; k < n; ++k) {
      const Op &op = p.ops[k];
      std::unique_ptr<Objects> fresh_holder(new Objects());
      Objects &fresh = *fresh_holder;
      switch (op.kind) {
        case OP_SETOPTS:
          // a == 1: the op sets exactly the option fields of the previous
          // setopts on this encoder, with other values: the later setter
          // overrides the earlier one, so a fresh object needs the last only.
          if (op.a == 1 && !model.enc_opts[op.obj].empty()) {
            model.enc_opts[op.obj].back() = op.opts;
          } else {
            model.enc_opts[op.obj].push_back(op.opts);
          }
          ref[k].ran = 1;
          ref[k].ok = 1;
          continue;
        case OP_RESET:
          model.enc_opts[op.obj].clear();
          ref[k].ran = 1;
          ref[k].ok = 1;
          continue;
        case OP_SKIP:
          model.skip_mask[op.obj] |= 1 << op.a;
          ref[k].ran = 1;
          ref[k].ok = 1;
          continue;
        case OP_EXPERT_NEW:
          model.exp_opts[op.obj].clear();
          model.exp_opts[op.obj].push_back(op.opts);
          model.exp_geom[op.obj] = op.geom;
          ref[k].ran = 1;
          ref[k].ok = 1;
          continue;
        case OP_EXPERT_SETOPTS:
          if (model.exp_geom[op.obj] >= 0) model.exp_opts[op.obj].push_back(op.opts);
          ref[k].ran = 1;
          ref[k].ok = 1;
          continue;
        case OP_BUF_WRITE:
          ref[k].ran = 1;
          ref[k].ok = 1;
          continue;
        default:
          break;
      }
      Op fop = op;
      fop.append = 0;
      fop.buf = 0;
      if (op.kind == OP_EXPERT_ENCODE && model.exp_geom[op.obj] < 0) continue;
      // With process isolation everything from here to the end of the op runs
      // in a child; only the result travels back.
      int ref_fd[2] = {-1, -1};
      pid_t ref_pid = -1;
      if (cold_refs) {
        if (pipe(ref_fd) != 0) abort();
        fflush(nullptr);
        ref_pid = fork();
        if (ref_pid == 0) {
          prctl(PR_SET_PDEATHSIG, SIGKILL);
          close(ref_fd[0]);
        } else {
          close(ref_fd[1]);
          std::string blob;
          EnvReadAll(ref_fd[0], &blob);
          close(ref_fd[0]);
          int status = 0;
          waitpid(ref_pid, &status, 0);
          if (!WIFEXITED(status) || WEXITSTATUS(status) != 0 ||
              blob.size() != sizeof(OpResult))
            EnvDieLike(status);
          memcpy(&ref[k], blob.data(), sizeof(OpResult));
          if (op.kind == OP_BAD_ENCODE)
            model.enc_opts[op.obj].push_back(
                BadOptions(p.geoms[op.geom % p.geoms.size()]));
          ++*n_calls;
          if (ref[k].abandoned) {
            log.U64(0xaba);
            *abandoned = true;
            return log.Digest();
          }
          continue;
        }
      }
      if (op.kind == OP_ENCODE || op.kind == OP_BAD_ENCODE) {
        for (const Workload &w : model.enc_opts[op.obj])
          ApplyOptions(w, fresh.enc[op.obj].get());
        if (op.kind == OP_BAD_ENCODE) {
          Workload bad = BadOptions(p.geoms[op.geom % p.geoms.size()]);
          ApplyOptions(bad, fresh.enc[op.obj].get());
          model.enc_opts[op.obj].push_back(bad);
        }
      } else if (op.kind == OP_EXPERT_ENCODE) {
        Op mk;
        mk.kind = OP_EXPERT_NEW;
        mk.obj = op.obj;
        mk.geom = model.exp_geom[op.obj];
        mk.opts = model.exp_opts[op.obj][0];
        OpResult tmp;
        ExecOpInEnv(p, m, mk, &fresh, e0, k, &tmp);
        for (size_t oi = 1; oi < model.exp_opts[op.obj].size(); ++oi) {
          Op so;
          so.kind = OP_EXPERT_SETOPTS;
          so.obj = op.obj;
          so.geom = mk.geom;
          so.opts = model.exp_opts[op.obj][oi];
          ExecOpInEnv(p, m, so, &fresh, e0, k, &tmp);
        }
        fop.geom = mk.geom;
      } else if (op.kind == OP_DECODE) {
        for (int t = 0; t < 5; ++t)
          if (model.skip_mask[op.obj] & (1 << t))
            fresh.dec[op.obj]->SetSkipAttributeTransform(
                static_cast<draco::GeometryAttribute::Type>(t));
      }
      // Decodes with trailing bytes are compared with the decode of the bare
      // stream: trailing bytes must not matter.
      if (fop.trail) fop.trail = 0;
      ExecOpInEnv(p, m, fop, &fresh, e0, k, &ref[k]);
      if (cold_refs) {
        // (child) hand the result to the plan process and leave without
        // running any destructor.
        EnvWriteAll(ref_fd[1], &ref[k], sizeof(OpResult));
        _exit(0);
      }
      ++*n_calls;
      if (ref[k].abandoned) {
        // |fresh| holds objects in an unknown state: never destroy them.
        (void)fresh_holder.release();
        log.U64(0xaba);
        *abandoned = true;
        return log.Digest();
      }
    }
  }
  // ---- histories under each environment ----
  for (int e = 0; e < p.envs; ++e) {
    Env env;
    env.id = e;  // env 0 = unperturbed history; 1.. perturbed
    env.seed = mix64(p.env_seed, e);
    // The input geometries are rebuilt inside every environment, so that the
    // objects the encoders look at (attributes, buffers) also live at that
    // environment's addresses (output must not depend on where they are).
    Materials me;
    if (e != 0) {
      AllocConfig gc;
      gc.perturb = true;
      gc.fill_mode = e == 1 ? 3 : (e == 2 ? 2 : 0);
      gc.env_seed = mix64(env.seed, 0x6e0);
      gc.descending = (e % 3) == 2;
      if (AllocArenaEverywhere()) gc.ascending = !gc.descending;
      AllocBegin(gc);
      bool okg = true;
      for (const Workload &w : p.geoms) {
        std::unique_ptr<draco::PointCloud> g = BuildGeometry(w);
        if (!g) okg = false;
        me.geoms.push_back(std::move(g));
      }
      AllocEnd(false);
      if (okg) {
        m.geoms.swap(me.geoms);  // |me| now holds the reference geometries
      } else {
        me.geoms.clear();
      }
    }
    struct RestoreGeoms {
      Materials *m, *me;
      ~RestoreGeoms() {
        if (!me->geoms.empty()) m->geoms.swap(me->geoms);
      }
    } restore_geoms{&m, &me};
    std::unique_ptr<Objects> objs_holder(new Objects());
    Objects &objs = *objs_holder;
    std::vector<int> touched(16, 0);
    for (size_t k = 0; k < n; ++k) {
      Op op = p.ops[k];
      OpResult r;
      if (op.kind == OP_BAD_ENCODE) {
        Workload bad = BadOptions(p.geoms[op.geom % p.geoms.size()]);
        ApplyOptions(bad, objs.enc[op.obj].get());
      }
      if (op.kind == OP_EXPERT_ENCODE && !objs.exp[op.obj]) {
        log.U64(0x5c10);
        continue;
      }
      ExecOpInEnv(p, m, op, &objs, env, k, &r);
      ++*n_calls;
      if (r.abandoned) {
        (void)objs_holder.release();
        log.U64(0xaba);
        *abandoned = true;
        return log.Digest();
      }
      if (e == 0) {
        int slot = op.kind == OP_BUF_WRITE ? 8 + op.buf
                   : op.kind <= OP_ENCODE || op.kind == OP_BAD_ENCODE
                       ? op.obj
                       : (op.kind <= OP_EXPERT_ENCODE || op.kind == OP_EXPERT_SETOPTS
                              ? 2 + op.obj
                          : (op.kind == OP_DIRECT_ENCODE ? 4
                             : (op.kind == OP_DIRECT_DECODE ? 5 : 6 + op.obj)));
        if (touched[slot]++) ++*reused_ops;
      }
      r.Hash(&log);
      if (trace && e == 0) {
        Json t = Json::Object();
        t["op"] = kOpNames[op.kind];
        t["ok"] = r.ok;
        t["code"] = r.code;
        t["h"] = Hex64(r.h);
        t["ref_h"] = Hex64(ref[k].h);
        t["remaining"] = static_cast<long long>(r.remaining);
        trace->push(t);
      }
      // ----- oracles -----
      const OpResult &x = ref[k];
      auto add = [&](const char *cls, const std::string &what,
                     const std::string &detail) {
        Finding f;
        f.cls = cls;
        f.sig = std::string(cls) + "|" + OpSig(p, m, op) + "|" + what;
        f.detail = detail + " (op " + std::to_string(k) + ", env " +
                   std::to_string(e) + ")";
        f.op = k;
        findings->push_back(f);
      };
      if (r.clock_calls) {
        add("clock_read", "libc_time_or_rand",
            std::to_string(r.clock_calls) + " clock/rand calls on a codec path");
      }
      if (!x.ran) continue;
      const bool is_setter = op.kind == OP_SETOPTS || op.kind == OP_RESET ||
                             op.kind == OP_SKIP || op.kind == OP_EXPERT_NEW ||
                             op.kind == OP_EXPERT_SETOPTS || op.kind == OP_BUF_WRITE;
      if (is_setter) continue;
      const char *cls = e == 0 ? "history_dependence" : "environment_dependence";
      // A decode with bytes appended is compared with the decode of the bare
      // stream: a difference there is a dependence on trailing bytes.
      if (op.trail > 0) cls = "trailing_bytes_dependence";
      if (r.ok != x.ok || r.code != x.code) {
        add(cls, "status",
            "status " + std::to_string(r.ok) + "/" + std::to_string(r.code) +
                " vs fresh-object reference " + std::to_string(x.ok) + "/" +
                std::to_string(x.code));
        continue;
      }
      if (!r.ok) continue;  // nothing is asserted about a failed op's output
      if (r.h != x.h) {
        add(cls, op.kind == OP_DECODE || op.kind == OP_DIRECT_DECODE ? "digest"
                                                                      : "bytes",
            "result " + Hex64(r.h) + " vs fresh-object reference " + Hex64(x.h));
      }
      if (op.kind == OP_DECODE || op.kind == OP_DIRECT_DECODE) {
        if (op.faults.empty() && r.remaining != op.trail) {
          add("consumption", "remaining_size",
              "remaining_size " + std::to_string(r.remaining) + " after ok decode, " +
                  std::to_string(op.trail) + " trailing bytes were appended");
        }
      } else {
        if (r.prefix_h != 0)
          add(cls, "buffer_prefix", "bytes already in the EncoderBuffer changed");
      }
    }
  }
  return log.Digest();
}

std::vector<std::string> SmallCorpus(const std::string &repo) {
  std::vector<std::string> out;
  static const char *files[] = {
      "cube_att.drc", "cube_att.obj.edgebreaker.cl10.2.2.drc",
      "cube_att.obj.edgebreaker.cl4.2.2.drc", "cube_att.obj.sequential.cl3.2.2.drc",
      "cube_att_sub_o_2.drc", "cube_att_sub_o_no_metadata.drc", "cube_pc.drc",
      "octagon_preserved.drc", "point_cloud_no_qp.drc",
      "test_nm.obj.edgebreaker.0.10.0.drc", "test_nm.obj.edgebreaker.0.9.1.drc",
      "test_nm.obj.edgebreaker.1.0.0.drc", "test_nm.obj.edgebreaker.1.1.0.drc",
      "test_nm.obj.edgebreaker.cl10.2.2.drc", "test_nm.obj.edgebreaker.cl4.2.2.drc",
      "test_nm.obj.sequential.0.10.0.drc", "test_nm.obj.sequential.0.9.1.drc",
      "test_nm.obj.sequential.1.0.0.drc", "test_nm.obj.sequential.1.1.0.drc",
      "test_nm.obj.sequential.cl3.2.2.drc", "test_nm_quant.0.9.0.drc"};
  for (const char *f : files) {
    std::string s;
    if (ReadFile(repo + "/testdata/" + f, &s) && !s.empty()) out.push_back(f);
  }
  return out;
}

// Runs the plan in a child of the calling process when isolation is on (see
// above); the worker then never executes codec code itself.
uint64_t RunPlanIsolated(const EnvPlan &p, const std::string &repo,
                         std::vector<Finding> *findings, Json *trace,
                         uint64_t *n_calls, uint64_t *reused_ops, bool *abandoned) {
  if (!AllocArenaEverywhere())
    return RunPlan(p, repo, findings, trace, n_calls, reused_ops, abandoned, false);
  int fd[2];
  if (pipe(fd) != 0) abort();
  fflush(nullptr);
  const pid_t pid = fork();
  if (pid == 0) {
    prctl(PR_SET_PDEATHSIG, SIGKILL);
    close(fd[0]);
    std::vector<Finding> fs;
    Json tr = Json::Array();
    uint64_t c = 0, r = 0;
    bool ab = false;
    const uint64_t h = RunPlan(p, repo, &fs, trace ? &tr : nullptr, &c, &r, &ab, true);
    Json j = Json::Object();
    j["h"] = Hex64(h);
    j["c"] = static_cast<unsigned long long>(c);
    j["r"] = static_cast<unsigned long long>(r);
    j["ab"] = ab ? 1 : 0;
    Json fa = Json::Array();
    for (const Finding &f : fs) {
      Json e = Json::Object();
      e["cls"] = f.cls;
      e["sig"] = f.sig;
      e["detail"] = f.detail;
      e["op"] = static_cast<unsigned long long>(f.op);
      fa.push(e);
    }
    j["f"] = fa;
    j["tr"] = tr;
    const std::string text = j.Dump();
    EnvWriteAll(fd[1], text.data(), text.size());
    _exit(0);
  }
  close(fd[1]);
  std::string text;
  EnvReadAll(fd[0], &text);
  close(fd[0]);
  int status = 0;
  waitpid(pid, &status, 0);
  Json j;
  if (!WIFEXITED(status) || WEXITSTATUS(status) != 0 || !Json::Parse(text, &j))
    EnvDieLike(status);
  *n_calls = j.get("c").U64();
  *reused_ops = j.get("r").U64();
  *abandoned = j.get("ab").Int() != 0;
  const Json &fa = j.get("f");
  for (size_t i = 0; i < fa.size(); ++i) {
    Finding f;
    f.cls = fa.at(i).get("cls").Str();
    f.sig = fa.at(i).get("sig").Str();
    f.detail = fa.at(i).get("detail").Str();
    f.op = static_cast<size_t>(fa.at(i).get("op").U64());
    findings->push_back(f);
  }
  if (trace) *trace = j.get("tr");
  return strtoull(j.get("h").Str().c_str(), nullptr, 16);
}

Json FindingsToJson(const std::vector<Finding> &fs, const EnvPlan &p, uint64_t idx) {
  Json arr = Json::Array();
  std::map<std::string, int> seen;
  for (const Finding &f : fs) {
    if (seen[f.sig]++) continue;
    Json c = Json::Object();
    c["t"] = "cand";
    c["idx"] = static_cast<unsigned long long>(idx);
    c["prop"] = f.prop;
    c["class"] = f.cls;
    c["sig"] = f.sig;
    c["detail"] = f.detail;
    c["plan"] = p.ToJson();
    arr.push(c);
  }
  return arr;
}

}  // namespace
}  // namespace sim

// ------------------------------------------------------------------ CLI ----
int EnvMain(const std::map<std::string, std::string> &a, const std::string &cmd) {
  using namespace sim;
  auto get = [&](const char *k, const char *def) {
    auto it = a.find(k);
    return it == a.end() ? std::string(def) : it->second;
  };
  const std::string repo = get("repo", "/repo");
  const std::string tier = get("tier", "quick");
  const uint64_t seed = strtoull(get("seed", "1").c_str(), nullptr, 0);
  const std::string log_dir = get("logdir", ".");
  const int nworkers = atoi(get("workers", "16").c_str());
  const uint64_t sample_mod = strtoull(get("sample-mod", "1").c_str(), nullptr, 0);
  const bool hashlog = get("hashlog", "0") != "0";
  const int envs = tier == "thorough" ? 8 : 3;
  uint64_t total = strtoull(get("max-runs", "0").c_str(), nullptr, 0);
  if (!total) total = tier == "thorough" ? 200000 : (tier == "smoke" ? 200 : 6000);
  const std::vector<std::string> corpus = SmallCorpus(repo);

  if (cmd == "batch") {
    Json cands = Json::Array();
    uint64_t runs = 0, calls = 0, reused = 0, plans_with_reuse = 0, failed_then_used = 0,
             abandoned_plans = 0, wallclock_kills = 0;
    std::map<std::string, uint64_t> opcount;
    std::map<std::string, uint64_t> sigcount;
    Json samples = Json::Array();
    static uint64_t w_runs, w_calls, w_reused, w_reuse_plans, w_abandoned;
    static std::map<std::string, uint64_t> w_ops;
    static std::vector<uint64_t> w_hashes;
    static std::map<std::string, int> w_emitted;
    PoolCallbacks cb;
    cb.init = [&](int) {
      w_runs = w_calls = w_reused = w_reuse_plans = w_abandoned = 0;
      // Warm-up run (first-use initialisation inside libstdc++ / Draco).
      EnvPlan p = GeneratePlan(mix64(seed, 0xe0e0), 0, corpus);
      std::vector<Finding> f;
      uint64_t c = 0, r = 0;
      // (With process isolation the worker itself stays cold.)
      if (!AllocArenaEverywhere()) {
        bool ab;
        RunPlan(p, repo, &f, nullptr, &c, &r, &ab);
      }
    };
    cb.run = [&](uint64_t idx, std::string *out) {
      if (sample_mod > 1 && idx % sample_mod != 0) return;
      EnvPlan p = GeneratePlan(mix64(mix64(seed, label_hash("env-run")), idx),
                               tier == "smoke" ? 0 : 1, corpus);
      p.envs = envs;
      std::vector<Finding> fs;
      uint64_t c = 0, r = 0;
      Json trace = Json::Array();
      bool ab = false;
      const uint64_t h =
          RunPlanIsolated(p, repo, &fs, idx < 3 ? &trace : nullptr, &c, &r, &ab);
      ++w_runs;
      if (ab) ++w_abandoned;
      w_calls += c;
      w_reused += r;
      if (r) ++w_reuse_plans;
      for (const Op &op : p.ops) ++w_ops[kOpNames[op.kind]];
      if (hashlog) PoolLogRunHash(idx, h);
      if (!fs.empty()) {
        Json arr = FindingsToJson(fs, p, idx);
        for (size_t i = 0; i < arr.size(); ++i) {
          if (w_emitted[arr.at(i).get("sig").Str()]++ >= 3) continue;
          *out += arr.at(i).Dump();
          *out += '\n';
        }
      }
      if (idx < 3) {
        Json s = Json::Object();
        s["t"] = "sample";
        s["idx"] = static_cast<unsigned long long>(idx);
        s["plan"] = p.ToJson();
        s["trace_env0"] = trace;
        *out += s.Dump();
        *out += '\n';
      }
    };
    cb.finish = [&](int w, std::string *out) {
      Json s = Json::Object();
      s["t"] = "stats";
      s["runs"] = static_cast<unsigned long long>(w_runs);
      s["calls"] = static_cast<unsigned long long>(w_calls);
      s["reused"] = static_cast<unsigned long long>(w_reused);
      s["reuse_plans"] = static_cast<unsigned long long>(w_reuse_plans);
      s["abandoned"] = static_cast<unsigned long long>(w_abandoned);
      Json o = Json::Object();
      for (auto &kv : w_ops) o[kv.first] = static_cast<unsigned long long>(kv.second);
      s["ops"] = o;
      *out += s.Dump();
      *out += '\n';
    };
    cb.on_line = [&](const std::string &line) {
      Json j;
      if (!Json::Parse(line, &j)) return;
      const std::string t = j.get("t").Str();
      if (t == "cand") {
        ++sigcount[j.get("sig").Str()];
        if (cands.size() < 200) cands.push(j);
      } else if (t == "sample") {
        samples.push(j);
      } else if (t == "stats") {
        runs += j.get("runs").U64();
        calls += j.get("calls").U64();
        reused += j.get("reused").U64();
        plans_with_reuse += j.get("reuse_plans").U64();
        abandoned_plans += j.get("abandoned").U64();
        for (auto &kv : j.get("ops").items()) opcount[kv.first] += kv.second.U64();
      }
    };
    Json machinery = Json::Array();
    cb.on_death = [&](const PoolDeath &d) {
      Json c = Json::Object();
      std::string sig, excerpt;
      const std::string cls = ClassifyDeath(d, &sig, &excerpt);
      if (cls == "wallclock") {
        // Real time is not something the simulator controls: never a violation.
        ++wallclock_kills;
        return;
      }
      c["t"] = d.in_run ? "cand" : "machinery";
      c["idx"] = static_cast<unsigned long long>(d.idx);
      c["prop"] = "C06";
      c["class"] = "crash";
      c["sig"] = "crash_in_history|" + sig;
      c["detail"] = "worker died during a history: " + cls;
      c["log"] = excerpt;
      if (d.in_run) {
        EnvPlan p = GeneratePlan(mix64(mix64(seed, label_hash("env-run")), d.idx),
                                 tier == "smoke" ? 0 : 1, corpus);
        p.envs = envs;
        c["plan"] = p.ToJson();
      }
      cands.push(c);
    };
    PoolOptions po;
    po.workers = nworkers;
    po.begin = strtoull(get("begin", "0").c_str(), nullptr, 0);
    po.head = 0;
    po.end = total;
    po.budget_s = atof(get("budget", "0").c_str());
    po.log_dir = log_dir;
    po.hashlog = hashlog;
    po.permute = po.budget_s > 0;
    PoolResult pr = RunPool(po, cb);
    (void)failed_then_used;
    Json sum = Json::Object();
    sum["engine"] = "env";
    sum["tier"] = tier;
    sum["seed"] = static_cast<unsigned long long>(seed);
    sum["total_planned"] = static_cast<unsigned long long>(total);
    sum["runs"] = static_cast<unsigned long long>(runs);
    sum["calls"] = static_cast<unsigned long long>(calls);
    sum["envs"] = envs;
    sum["reused_object_ops"] = static_cast<unsigned long long>(reused);
    sum["plans_with_reuse"] = static_cast<unsigned long long>(plans_with_reuse);
    sum["undecided_budget"] = static_cast<unsigned long long>(abandoned_plans);
    sum["undecided_wallclock"] = static_cast<unsigned long long>(wallclock_kills);
    sum["wall_s"] = pr.wall_s;
    sum["deaths"] = static_cast<unsigned long long>(pr.deaths);
    Json o = Json::Object();
    for (auto &kv : opcount) o[kv.first] = static_cast<unsigned long long>(kv.second);
    sum["ops"] = o;
    Json sc = Json::Object();
    for (auto &kv : sigcount) sc[kv.first] = static_cast<unsigned long long>(kv.second);
    sum["sig_counts"] = sc;
    sum["candidates"] = cands;
    sum["samples"] = samples;
    Json cf = Json::Array();
    for (auto &f : corpus) cf.push(f);
    sum["corpus"] = cf;
    WriteFile(get("out", "/dev/stdout"), sum.Dump());
    return 0;
  }
  if (cmd == "exec") {
    std::string text;
    if (!ReadFile(get("plans", ""), &text)) return 2;
    std::vector<Json> plans;
    size_t pos = 0;
    while (pos < text.size()) {
      size_t e = text.find('\n', pos);
      if (e == std::string::npos) e = text.size();
      std::string line = text.substr(pos, e - pos);
      pos = e + 1;
      if (line.empty()) continue;
      Json j;
      if (!Json::Parse(line, &j)) j = Json::Object();
      plans.push_back(j);
    }
    std::map<uint64_t, std::string> results;
    PoolCallbacks cb;
    cb.run = [&](uint64_t n, std::string *out) {
      EnvPlan p = EnvPlan::FromJson(plans[n]);
      std::vector<Finding> fs;
      uint64_t c = 0, r = 0;
      Json trace = Json::Array();
      bool ab = false;
      const uint64_t h = RunPlanIsolated(p, repo, &fs, &trace, &c, &r, &ab);
      Json res = Json::Object();
      res["t"] = "result";
      res["n"] = static_cast<unsigned long long>(n);
      Json cs = FindingsToJson(fs, p, n);
      for (size_t i = 0; i < cs.size(); ++i) cs.at(i).erase("plan");
      res["cands"] = cs;
      res["results"] = trace;
      res["hash"] = Hex64(h);
      *out += res.Dump();
      *out += '\n';
    };
    cb.on_line = [&](const std::string &line) {
      Json j;
      if (Json::Parse(line, &j)) results[j.get("n").U64()] = line;
    };
    cb.on_death = [&](const PoolDeath &d) {
      Json res = Json::Object();
      res["t"] = "result";
      res["n"] = static_cast<unsigned long long>(d.idx);
      Json cs = Json::Array();
      Json c = Json::Object();
      std::string sig, excerpt;
      const std::string cls = ClassifyDeath(d, &sig, &excerpt);
      c["prop"] = "C06";
      c["class"] = "crash";
      c["sig"] = "crash_in_history|" + sig;
      c["detail"] = cls;
      c["log"] = excerpt;
      cs.push(c);
      res["cands"] = cs;
      res["results"] = Json::Array();
      res["hash"] = "crash:" + sig;
      results[d.idx] = res.Dump();
    };
    PoolOptions po;
    po.workers = nworkers;
    po.begin = 0;
    po.end = plans.size();
    po.log_dir = log_dir;
    RunPool(po, cb);
    FILE *out = fopen(get("out", "/dev/stdout").c_str(), "w");
    if (!out) return 2;
    for (uint64_t n = 0; n < plans.size(); ++n) {
      auto it = results.find(n);
      if (it == results.end()) {
        fprintf(out, "{\"t\":\"result\",\"n\":%llu,\"cands\":[],\"results\":[]}\n",
                static_cast<unsigned long long>(n));
      } else {
        fprintf(out, "%s\n", it->second.c_str());
      }
    }
    fclose(out);
    return 0;
  }
  return 2;
}
