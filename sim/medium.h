// Simulated medium: the bytes a reader is handed live in a read-only mapping
// that ends exactly at a PROT_NONE page (or, mirrored, starts right after
// one). Any write to the caller's bytes and any read past the last (before the
// first) byte faults in hardware, independent of ASan.
#ifndef VERIF_SIM_MEDIUM_H_
#define VERIF_SIM_MEDIUM_H_

#include <sys/mman.h>
#include <unistd.h>

#include <cstdint>
#include <cstdlib>
#include <cstring>

namespace sim {

class Medium {
 public:
  Medium() {}
  ~Medium() { Release(); }
  // Places |n| bytes; returns pointer to the first byte.
  const char *Place(const uint8_t *data, size_t n, bool mirrored) {
    const size_t page = 4096;
    const size_t need = (n + page - 1) / page * page + page;  // >= 1 data page
    if (need > data_size_) {
      Release();
      data_size_ = need < (1u << 20) ? (1u << 20) : need;
      // [guard page][data pages][guard page]
      map_ = static_cast<uint8_t *>(mmap(nullptr, data_size_ + 2 * page,
                                         PROT_NONE, MAP_PRIVATE | MAP_ANONYMOUS,
                                         -1, 0));
      if (map_ == MAP_FAILED) abort();
    }
    uint8_t *lo = map_ + page;
    mprotect(lo, data_size_, PROT_READ | PROT_WRITE);
    uint8_t *p;
    if (mirrored) {
      p = lo;
    } else {
      p = lo + data_size_ - n;
    }
    // Keep the bytes below the stream deterministic (zero), whatever earlier
    // runs left there: a read before the first byte must replay identically.
    if (dirty_lo_) memset(dirty_lo_, 0, dirty_n_);
    dirty_lo_ = p;
    dirty_n_ = n;
    if (n) memcpy(p, data, n);
    mprotect(lo, data_size_, PROT_READ);
    cur_ = p;
    cur_n_ = n;
    return reinterpret_cast<const char *>(p);
  }
  const uint8_t *data() const { return cur_; }
  size_t size() const { return cur_n_; }

 private:
  void Release() {
    if (map_) munmap(map_, data_size_ + 2 * 4096);
    map_ = nullptr;
    data_size_ = 0;
    dirty_lo_ = nullptr;
  }
  uint8_t *map_ = nullptr;
  size_t data_size_ = 0;
  uint8_t *cur_ = nullptr;
  uint8_t *dirty_lo_ = nullptr;
  size_t dirty_n_ = 0;
  size_t cur_n_ = 0;
};

}  // namespace sim

#endif  // VERIF_SIM_MEDIUM_H_
