// Engine `sched` (C19): N independent encode/decode tasks run as real threads,
// exactly one runnable at a time; a seeded scheduler decides at every
// preemption point (access to writable static storage, atomics, static-init
// guards, mutexes, operator new/delete, sampled function entries) who runs
// next. Oracles: no data race on static storage (vector clocks over the access
// log), no cross-talk (every task's results equal its solo results), every
// task finishes.
#include <pthread.h>
#include <poll.h>
#include <semaphore.h>
#include <sys/prctl.h>
#include <signal.h>
#include <time.h>
#include <sys/wait.h>
#include <unistd.h>
#include <errno.h>

#include <map>
#include <string>
#include <vector>

#include "alloc.h"
#include "common.h"
#include "draco/compression/decode.h"
#include "draco/core/decoder_buffer.h"
#include "faults.h"
#include "geom.h"
#include "pool.h"
#include "tsanrt.h"
#include "work.h"

// Harness-side canary compiled with the same instrumentation (canary_tsi.cc).
extern "C" int sim_canary_touch(int v);
extern "C" int sim_canary_guarded();

namespace sim {
namespace {

// ----------------------------------------------------------------- plan ----
struct SOp {
  int kind = 0;  // 0 encode workload, 1 decode stream of workload, 2 decode corpus
                 // file, 3 canary (racy static), 4 canary (guarded static init)
  Workload w;
  std::string file;
  std::vector<FaultOp> faults;
  int a = 0;
  Json ToJson() const {
    Json j = Json::Object();
    static const char *n[] = {"enc", "dec", "dec_corpus", "canary_race", "canary_guard"};
    j["k"] = n[kind];
    if (kind <= 1) j["w"] = w.ToJson();
    if (kind == 2) j["file"] = file;
    if (!faults.empty()) {
      Json f = Json::Array();
      for (const FaultOp &o : faults) f.push(o.ToJson());
      j["faults"] = f;
    }
    j["a"] = a;
    return j;
  }
  static SOp FromJson(const Json &j) {
    SOp o;
    const std::string k = j.get("k").Str();
    o.kind = k == "enc" ? 0 : k == "dec" ? 1 : k == "dec_corpus" ? 2 : k == "canary_race" ? 3 : 4;
    if (j.has("w")) o.w = Workload::FromJson(j.get("w"));
    if (j.has("file")) o.file = j.get("file").Str();
    const Json &f = j.get("faults");
    for (size_t i = 0; i < f.size(); ++i) o.faults.push_back(FaultOp::FromJson(f.at(i)));
    o.a = static_cast<int>(j.get("a").Int());
    return o;
  }
};

struct Switch {
  int from;         // -1 = initial choice
  int64_t at;       // local yield number of |from|; -1 = when |from| ended
  int to;
};

struct SPlan {
  std::vector<std::vector<SOp>> tasks;
  std::string strategy = "random";  // random | pct | replay
  int p = 30;                       // switch probability per 1000 (random)
  int pct_d = 3;
  uint64_t sseed = 1;
  uint64_t func_interval = 0;
  uint64_t acc_interval = 0;
  std::vector<Switch> schedule;     // replay
  Json ToJson() const {
    Json j = Json::Object();
    j["engine"] = "sched";
    Json t = Json::Array();
    for (const auto &ops : tasks) {
      Json tj = Json::Object();
      Json o = Json::Array();
      for (const SOp &op : ops) o.push(op.ToJson());
      tj["ops"] = o;
      t.push(tj);
    }
    j["tasks"] = t;
    j["strategy"] = strategy;
    j["p"] = p;
    j["pct_d"] = pct_d;
    j["sseed"] = static_cast<unsigned long long>(sseed);
    j["func_interval"] = static_cast<unsigned long long>(func_interval);
    if (acc_interval) j["acc_interval"] = static_cast<unsigned long long>(acc_interval);
    Json s = Json::Array();
    for (const Switch &sw : schedule) {
      Json e = Json::Array();
      e.push(sw.from);
      e.push(static_cast<long long>(sw.at));
      e.push(sw.to);
      s.push(e);
    }
    j["schedule"] = s;
    return j;
  }
  static SPlan FromJson(const Json &j) {
    SPlan p;
    for (size_t i = 0; i < j.get("tasks").size(); ++i) {
      std::vector<SOp> ops;
      const Json &o = j.get("tasks").at(i).get("ops");
      for (size_t k = 0; k < o.size(); ++k) ops.push_back(SOp::FromJson(o.at(k)));
      p.tasks.push_back(ops);
    }
    p.strategy = j.get("strategy").Str();
    p.p = static_cast<int>(j.get("p").Int(30));
    p.pct_d = static_cast<int>(j.get("pct_d").Int(3));
    p.sseed = j.get("sseed").U64(1);
    p.func_interval = j.get("func_interval").U64(0);
    p.acc_interval = j.has("acc_interval") ? j.get("acc_interval").U64(0) : 0;
    const Json &s = j.get("schedule");
    for (size_t i = 0; i < s.size(); ++i) {
      Switch sw;
      sw.from = static_cast<int>(s.at(i).at(0).Int());
      sw.at = s.at(i).at(1).Int();
      sw.to = static_cast<int>(s.at(i).at(2).Int());
      p.schedule.push_back(sw);
    }
    return p;
  }
};

const char *kSchedCorpus[] = {"cube_att.drc",
                              "cube_att.obj.edgebreaker.cl4.2.2.drc",
                              "cube_att.obj.sequential.cl3.2.2.drc",
                              "cube_pc.drc",
                              "point_cloud_no_qp.drc",
                              "test_nm.obj.edgebreaker.1.0.0.drc",
                              "test_nm.obj.edgebreaker.cl10.2.2.drc",
                              "test_nm.obj.sequential.0.9.1.drc",
                              "test_nm_quant.0.9.0.drc",
                              "octagon_preserved.drc"};

SPlan GenerateSPlan(uint64_t seed, int max_tasks, bool canary) {
  SPlan p;
  Rng r(seed);
  const int n = static_cast<int>(r.Range(2, max_tasks));
  for (int t = 0; t < n; ++t) {
    std::vector<SOp> ops;
    Rng rt = r.Fork(100 + t);
    const int nops = static_cast<int>(rt.Range(1, 4));
    for (int i = 0; i < nops; ++i) {
      SOp op;
      Rng ro = rt.Fork(i);
      const uint64_t pick = ro.Below(10);
      if (pick < 4) {
        op.kind = 0;
        op.w = GenerateWorkload(ro.Fork("w"), ro.Chance(1, 5) ? 1 : 0);
        if (op.w.n > 400) op.w.n = 400;
      } else if (pick < 7) {
        op.kind = 1;
        op.w = GenerateWorkload(ro.Fork("w"), ro.Chance(1, 5) ? 1 : 0);
        if (op.w.n > 400) op.w.n = 400;
      } else {
        op.kind = 2;
        op.file = kSchedCorpus[ro.Below(sizeof(kSchedCorpus) / sizeof(kSchedCorpus[0]))];
      }
      if (op.kind >= 1 && ro.Chance(1, 4)) {
        std::vector<const std::vector<uint8_t> *> none;
        op.faults = RandomFaultPlan(ro.Fork("f"), 300, none);
      }
      if (op.kind == 0 && ro.Fork("nopos").Chance(1, 8)) {
        // A call that is correctly rejected (a mesh without POSITION): failing
        // calls run concurrently with succeeding ones, too.
        op.w = GenerateWorkload(ro.Fork("w3"), 0, 0);
        op.w.atts[0].type = draco::GeometryAttribute::GENERIC;
        op.w.method = 1;
        op.w.espeed = op.w.dspeed = static_cast<int>(ro.Fork("s3").Below(6));
        op.w.expert = 0;
      } else if (op.kind <= 1 && ro.Fork("slow").Chance(1, 4)) {
        // The slowest, most thorough encoder configuration on a mesh that is
        // large enough for every prediction scheme to engage.
        op.w = GenerateWorkload(ro.Fork("w2"), 1, 0);
        op.w.n = static_cast<int>(ro.Fork("n2").Range(60, 300));
        // A quarter: above the 1000-face threshold below which the encoder
        // never considers the valence coder.
        if (ro.Fork("n2big").Chance(1, 4))
          op.w.n = static_cast<int>(ro.Fork("n2b").Range(1000, 1400));
        op.w.method = ro.Chance(1, 2) ? 1 : -1;
        op.w.espeed = op.w.dspeed = static_cast<int>(ro.Fork("s2").Below(2));
        op.w.expert = 0;
        op.w.eb_method = -1;
        op.w.nofeat = ro.Fork("nf2").Chance(1, 2) ? 1 : 0;
      }
      ops.push_back(op);
    }
    if (canary) {
      SOp c;
      c.kind = (seed & 1) ? 3 : 4;
      c.a = 3;
      ops.insert(ops.begin() + (ops.size() > 1 ? 1 : 0), c);
    }
    p.tasks.push_back(ops);
  }
  // Sibling tasks (a third of the plans): every task performs the same
  // operations with the same options on data of the same shape and range but
  // different content - the callers of a server decoding "many similar meshes
  // in parallel". State keyed too coarsely is shared exactly between those.
  if (!canary && r.Fork("siblings").Chance(1, 3)) {
    for (size_t t = 1; t < p.tasks.size(); ++t) {
      p.tasks[t] = p.tasks[0];
      for (SOp &op : p.tasks[t])
        if (op.kind <= 1) op.w.gseed = mix64(op.w.gseed, t) >> 2;
    }
  }
  // Wide-symbol plans (a sixth): every task decodes (or encodes) two or three
  // small geometries whose integer attributes hold a few distinct but large
  // values without prediction, so that the entropy layer runs its raw scheme
  // with the high-precision (18..20 bit) tables in several threads at once,
  // several coder lifetimes per thread.
  if (!canary && r.Fork("wide").Chance(1, 6)) {
    for (size_t t = 0; t < p.tasks.size(); ++t) {
      Rng rw = r.Fork(7000 + t);
      std::vector<SOp> ops;
      const int nops = static_cast<int>(rw.Range(2, 3));
      for (int i = 0; i < nops; ++i) {
        SOp op;
        Rng ro = rw.Fork(i);
        op.kind = ro.Chance(3, 4) ? 1 : 0;
        Workload w;
        w.kind = ro.Chance(1, 2) ? 1 : 0;
        w.topo = 0;
        w.n = static_cast<int>(ro.Range(30, 200));
        w.gseed = ro.Next() >> 2;
        AttDesc pos;
        w.atts.push_back(pos);
        const int na = static_cast<int>(ro.Range(1, 2));
        for (int a = 0; a < na; ++a) {
          AttDesc g;
          g.type = draco::GeometryAttribute::GENERIC;
          g.dt = ro.Fork(40 + a).Chance(1, 2) ? draco::DT_UINT16 : draco::DT_UINT32;
          g.nc = static_cast<int>(ro.Fork(50 + a).Range(1, 2));
          g.vals = 1;
          w.atts.push_back(g);
        }
        w.method = w.kind == 0 ? static_cast<int>(ro.Range(0, 1)) : 0;
        w.qb[0] = 11;
        w.pred[4] = ro.Chance(1, 2) ? -2 : 0;
        w.espeed = w.dspeed = static_cast<int>(ro.Range(1, 7));
        op.w = w;
        ops.push_back(op);
      }
      p.tasks[t] = ops;
    }
  }
  // A few plans with thousands of values per attribute over ~700 distinct
  // symbols at the highest compression level: the only way to the 18..20 bit
  // tables of the raw symbol scheme (their number of *distinct* symbols selects
  // the table precision). Two or three tasks, two coder lifetimes each.
  if (!canary && r.Fork("wide-large").Chance(1, 40)) {
    const size_t nt = 2 + r.Fork("wide-large-n").Below(2);
    p.tasks.resize(nt);
    for (size_t t = 0; t < nt; ++t) {
      Rng rw = r.Fork(7500 + t);
      std::vector<SOp> ops;
      for (int i = 0; i < 2; ++i) {
        SOp op;
        Rng ro = rw.Fork(i);
        op.kind = ro.Chance(4, 5) ? 1 : 0;
        Workload w;
        w.kind = 1;
        w.topo = 0;
        w.n = static_cast<int>(ro.Range(2000, 2600));
        w.gseed = ro.Next() >> 2;
        AttDesc pos;
        w.atts.push_back(pos);
        AttDesc g;
        g.type = draco::GeometryAttribute::GENERIC;
        g.dt = draco::DT_UINT16;
        g.nc = 3;
        g.vals = 2;
        w.atts.push_back(g);
        w.method = 0;
        w.qb[0] = 10;
        w.pred[4] = -2;
        w.espeed = w.dspeed = 0;
        op.w = w;
        ops.push_back(op);
      }
      p.tasks[t] = ops;
    }
  }
  // Big-mesh plans (rare, expensive): three or four tasks that each encode a
  // mesh of 22..26 thousand faces (above 2^16 corners), sometimes next to a
  // small one. Scratch state that is only shared above a size threshold, and
  // ownership protocols that need three overlapping calls, show only here.
  if (!canary && r.Fork("big-mesh").Chance(1, 80)) {
    const size_t nt = 3 + r.Fork("big-mesh-n").Below(2);
    p.tasks.resize(nt);
    for (size_t t = 0; t < nt; ++t) {
      Rng rw = r.Fork(7800 + t);
      SOp op;
      op.kind = rw.Chance(4, 5) ? 0 : 1;
      Workload w;
      w.kind = 0;
      w.topo = 0;
      w.n = rw.Chance(1, 4) ? static_cast<int>(rw.Range(20, 200))
                            : static_cast<int>(rw.Range(22000, 26000));
      w.gseed = rw.Next() >> 2;
      w.jit = 0;
      AttDesc pos;
      w.atts.push_back(pos);
      w.method = 1;
      w.qb[0] = 11;
      w.espeed = w.dspeed = static_cast<int>(rw.Range(5, 9));
      op.w = w;
      p.tasks[t].assign(1, op);
    }
  }
  const uint64_t s = r.Below(3);
  p.strategy = s == 0 ? "pct" : "random";
  static const int ps[] = {2, 10, 50, 200, 600};
  p.p = ps[r.Below(5)];
  p.pct_d = static_cast<int>(r.Range(1, 6));
  p.sseed = r.Next() >> 2;
  static const uint64_t fi[] = {0, 200, 2000, 20000};
  p.func_interval = fi[r.Below(4)];
  static const uint64_t ai[] = {0, 0, 3000, 30000, 300000};
  p.acc_interval = ai[r.Fork("acc").Below(5)];
  return p;
}

// ------------------------------------------------------------ materials ----
struct OpInput {
  std::unique_ptr<draco::PointCloud> geom;  // for encodes
  std::vector<uint8_t> bytes;               // for decodes
  bool usable = true;
};

struct OpResult {
  int ran = 0, ok = 0, code = 0;
  uint64_t h = 0;
  bool operator==(const OpResult &o) const {
    return ran == o.ran && ok == o.ok && code == o.code && h == o.h;
  }
};

bool Prepare(const SPlan &p, const std::string &repo,
             std::vector<std::vector<OpInput>> *in) {
  in->resize(p.tasks.size());
  for (size_t t = 0; t < p.tasks.size(); ++t) {
    for (const SOp &op : p.tasks[t]) {
      OpInput oi;
      if (op.kind == 0) {
        oi.geom = BuildGeometry(op.w);
        if (!oi.geom) oi.usable = false;
      } else if (op.kind == 1) {
        std::string err;
        if (!EncodeWorkload(op.w, &oi.bytes, &err)) {
          Workload d = op.w;
          Workload def;
          d.method = -1;
          d.eb_method = -1;
          for (int i = 0; i < 5; ++i) {
            d.qb[i] = def.qb[i];
            d.pred[i] = -1;
          }
          d.expert = 0;
          if (!EncodeWorkload(d, &oi.bytes, &err)) oi.usable = false;
        }
        if (!op.faults.empty()) ApplyFaults(op.faults, &oi.bytes);
      } else if (op.kind == 2) {
        std::string s;
        if (!ReadFile(repo + "/testdata/" + op.file, &s) || s.empty()) {
          oi.usable = false;
        } else {
          oi.bytes.assign(s.begin(), s.end());
          if (!op.faults.empty()) ApplyFaults(op.faults, &oi.bytes);
        }
      }
      (*in)[t].push_back(std::move(oi));
    }
  }
  return true;
}

void RunOp(const SOp &op, const OpInput &in, OpResult *r) {
  if (!in.usable) return;
  r->ran = 1;
  try {
    if (op.kind == 0) {
      std::vector<uint8_t> out;
      std::string err;
      r->ok = EncodeGeometry(op.w, *in.geom, &out, &err);
      if (r->ok) {
        Hasher h;
        h.Bytes(out.data(), out.size());
        r->h = h.Digest();
      }
    } else if (op.kind <= 2) {
      draco::DecoderBuffer db;
      db.Init(reinterpret_cast<const char *>(in.bytes.data()), in.bytes.size());
      draco::Decoder dec;
      const bool mesh = in.bytes.size() > 7 && in.bytes[7] == 1;
      std::unique_ptr<draco::Mesh> m;
      std::unique_ptr<draco::PointCloud> pc;
      draco::Status st;
      if (mesh) {
        auto s = dec.DecodeMeshFromBuffer(&db);
        st = s.status();
        if (s.ok()) m = std::move(s).value();
      } else {
        auto s = dec.DecodePointCloudFromBuffer(&db);
        st = s.status();
        if (s.ok()) pc = std::move(s).value();
      }
      r->ok = st.ok();
      r->code = static_cast<int>(st.code());
      if (st.ok()) {
        const draco::PointCloud *g = m ? m.get() : pc.get();
        std::string d;
        if (g && ValidateGeometry(*g, m.get(), false, &d).empty())
          r->h = GeometryDigest(*g, m.get());
      }
    } else if (op.kind == 3) {
      int v = 0;
      for (int i = 0; i < op.a; ++i) v = sim_canary_touch(i + 1);
      r->ok = 1;
      r->h = static_cast<uint64_t>(v >= 0);  // value itself is schedule dependent
    } else {
      r->ok = 1;
      r->h = static_cast<uint64_t>(sim_canary_guarded());
    }
  } catch (const std::exception &) {
    r->ok = 0;
    r->code = -77;
  }
}

// ------------------------------------------------------------ scheduler ----
constexpr int kMaxTasks = 16;

struct TaskRt {
  pthread_t th;
  sem_t sem;
  int state = 0;  // 0 not started, 1 runnable, 2 done
  int64_t local_yields = 0;
  int priority = 0;
  std::vector<OpResult> results;
};

struct Sched {
  const SPlan *plan = nullptr;
  const std::vector<std::vector<OpInput>> *inputs = nullptr;
  TaskRt tasks[kMaxTasks];
  int n = 0;
  sem_t done_sem;
  Rng rng;
  std::vector<Switch> trace;
  size_t replay_pos = 0;
  std::map<std::pair<int, int64_t>, int> replay;  // (from, at) -> to
  uint64_t yields_total = 0;
  uint64_t kind_count[Y_NUM] = {0};
  uint64_t switches = 0;
  std::vector<int64_t> pct_points;  // global yield numbers of priority changes
  bool active = false;
};
Sched *g_sched = nullptr;
thread_local int tl_task = -1;
thread_local bool tl_in_sched = false;  // the scheduler itself allocates

int CurrentTaskId() { return tl_task; }

int PickRunnable(Sched *s, int exclude) {
  std::vector<int> c;
  for (int i = 0; i < s->n; ++i)
    if (i != exclude && s->tasks[i].state <= 1) c.push_back(i);
  if (c.empty()) return -1;
  if (s->plan->strategy == "pct") {
    int best = c[0];
    for (int i : c)
      if (s->tasks[i].priority > s->tasks[best].priority) best = i;
    return best;
  }
  if (s->plan->strategy == "replay") return c[0];
  return c[s->rng.Below(c.size())];
}

void SwitchTo(Sched *s, int self, int64_t at, int next) {
  s->trace.push_back(Switch{self, at, next});
  ++s->switches;
  sem_post(&s->tasks[next].sem);
  if (self >= 0 && s->tasks[self].state != 2) sem_wait(&s->tasks[self].sem);
}

struct InSched {
  InSched() { tl_in_sched = true; }
  ~InSched() { tl_in_sched = false; }
};

void Yield(int kind) {
  Sched *s = g_sched;
  if (!s || !s->active || tl_in_sched) return;
  const int self = tl_task;
  if (self < 0) return;
  InSched guard;
  TaskRt &me = s->tasks[self];
  const int64_t at = me.local_yields++;
  ++s->yields_total;
  if (kind >= 0 && kind < Y_NUM) ++s->kind_count[kind];
  int next = -1;
  const std::string &st = s->plan->strategy;
  if (st == "replay") {
    auto it = s->replay.find(std::make_pair(self, at));
    if (it != s->replay.end() && it->second >= 0 && it->second < s->n &&
        s->tasks[it->second].state <= 1)
      next = it->second;
  } else if (st == "pct") {
    for (int64_t pt : s->pct_points) {
      if (pt == static_cast<int64_t>(s->yields_total)) {
        // Priority change point: the running task drops below everyone.
        int low = 0;
        for (int i = 0; i < s->n; ++i) low = std::min(low, s->tasks[i].priority);
        me.priority = low - 1;
      }
    }
    int best = PickRunnable(s, -1);
    if (best >= 0 && best != self && s->tasks[best].priority > me.priority) next = best;
  } else {
    if (s->rng.Below(1000) < static_cast<uint64_t>(s->plan->p))
      next = PickRunnable(s, self);
  }
  if (next >= 0 && next != self) SwitchTo(s, self, at, next);
}

void YieldTo(int task) {
  Sched *s = g_sched;
  if (!s || !s->active) return;
  const int self = tl_task;
  if (self < 0 || task < 0 || task >= s->n || task == self || tl_in_sched) return;
  if (s->tasks[task].state > 1) return;
  InSched guard;
  const int64_t at = s->tasks[self].local_yields++;
  ++s->yields_total;
  SwitchTo(s, self, at, task);
}

void AllocYield(int kind) { Yield(kind == 0 ? Y_ALLOC : Y_FREE); }

void *TaskMain(void *arg) {
  const int id = static_cast<int>(reinterpret_cast<intptr_t>(arg));
  Sched *s = g_sched;
  tl_task = id;
  sem_wait(&s->tasks[id].sem);  // wait for the baton
  s->tasks[id].state = 1;
  TsanTaskStart(id);
  const std::vector<SOp> &ops = s->plan->tasks[id];
  for (size_t k = 0; k < ops.size(); ++k) {
    OpResult r;
    RunOp(ops[k], (*s->inputs)[id][k], &r);
    s->tasks[id].results.push_back(r);
  }
  TsanTaskEnd();
  // From here on this thread must not reach a preemption point any more (the
  // hand-over below allocates).
  tl_in_sched = true;
  s->tasks[id].state = 2;
  // Hand the baton on.
  int next = -1;
  if (s->plan->strategy == "replay") {
    auto it = s->replay.find(std::make_pair(id, int64_t(-1)));
    if (it != s->replay.end() && it->second >= 0 && it->second < s->n &&
        s->tasks[it->second].state <= 1)
      next = it->second;
  }
  if (next < 0) next = PickRunnable(s, id);
  tl_task = -1;
  if (next >= 0) {
    s->trace.push_back(Switch{id, -1, next});
    sem_post(&s->tasks[next].sem);
  } else {
    sem_post(&s->done_sem);
  }
  return nullptr;
}

struct Episode {
  std::vector<std::vector<OpResult>> results;
  std::vector<Switch> trace;
  std::vector<RaceReport> races;
  uint64_t static_accesses = 0, total_accesses = 0, yields = 0, switches = 0;
  uint64_t kind_count[Y_NUM] = {0};
  bool all_finished = true;
  uint64_t trace_hash = 0;
  bool wallclock = false;  // episode ended by the wall-clock protection
};

void RunConcurrent(const SPlan &p, const std::vector<std::vector<OpInput>> &in,
                   Episode *ep) {
  Sched s;
  s.plan = &p;
  s.inputs = &in;
  s.n = static_cast<int>(std::min<size_t>(p.tasks.size(), kMaxTasks));
  s.rng.Seed(mix64(p.sseed, 0x5c4ed));
  sem_init(&s.done_sem, 0, 0);
  for (const Switch &sw : p.schedule) s.replay[std::make_pair(sw.from, sw.at)] = sw.to;
  Rng pr(mix64(p.sseed, 0x9c7));
  for (int i = 0; i < s.n; ++i) {
    sem_init(&s.tasks[i].sem, 0, 0);
    s.tasks[i].priority = static_cast<int>(pr.Below(1000)) + 10;
  }
  for (int i = 0; i < p.pct_d; ++i)
    s.pct_points.push_back(static_cast<int64_t>(1 + pr.Below(4000)));
  g_sched = &s;
  TsanSetFuncSampling(p.func_interval, p.sseed);
  TsanSetAccessSampling(p.acc_interval);
  TsanBeginEpisode(s.n);
  s.active = true;
  for (int i = 0; i < s.n; ++i)
    pthread_create(&s.tasks[i].th, nullptr, TaskMain, reinterpret_cast<void *>(intptr_t(i)));
  // First task.
  int first = -1;
  if (p.strategy == "replay") {
    auto it = s.replay.find(std::make_pair(-1, int64_t(0)));
    if (it != s.replay.end() && it->second >= 0 && it->second < s.n) first = it->second;
  }
  if (first < 0) first = PickRunnable(&s, -1);
  s.trace.push_back(Switch{-1, 0, first});
  sem_post(&s.tasks[first].sem);
  sem_wait(&s.done_sem);
  s.active = false;
  for (int i = 0; i < s.n; ++i) pthread_join(s.tasks[i].th, nullptr);
  TsanEndEpisode(&ep->races, &ep->static_accesses, &ep->total_accesses);
  g_sched = nullptr;
  for (int i = 0; i < s.n; ++i) {
    ep->results.push_back(s.tasks[i].results);
    if (s.tasks[i].state != 2) ep->all_finished = false;
    sem_destroy(&s.tasks[i].sem);
  }
  sem_destroy(&s.done_sem);
  ep->trace = s.trace;
  ep->yields = s.yields_total;
  ep->switches = s.switches;
  for (int k = 0; k < Y_NUM; ++k) ep->kind_count[k] = s.kind_count[k];
}

struct SFinding {
  std::string cls, sig, detail;
};

uint64_t TraceHash(const std::vector<Switch> &t);

// One episode, in-process: the concurrent phase FIRST, on whatever state the
// process has, then every task alone for the reference results. (Dropping ops
// that run very long is decided by a deterministic access counter.)
void (*g_after_concurrent)() = nullptr;

uint64_t RunSPlanInProcess(const SPlan &p, std::vector<std::vector<OpInput>> &in,
                           std::vector<SFinding> *out, Episode *ep_out) {
  Episode ep;
  RunConcurrent(p, in, &ep);
  if (g_after_concurrent) g_after_concurrent();
  std::vector<std::vector<OpResult>> solo(p.tasks.size());
  for (size_t t = 0; t < p.tasks.size(); ++t) {
    for (size_t k = 0; k < p.tasks[t].size(); ++k) {
      OpResult r;
      TsanTaskStart(static_cast<int>(t));
      RunOp(p.tasks[t][k], in[t][k], &r);
      solo[t].push_back(r);
    }
  }
  Hasher h;
  for (size_t t = 0; t < ep.results.size(); ++t)
    for (const OpResult &r : ep.results[t]) {
      h.U64(r.ran);
      h.U64(r.ok);
      h.U64(r.code);
      h.U64(r.h);
    }
  for (const Switch &sw : ep.trace) {
    h.U64(static_cast<uint64_t>(sw.from + 1));
    h.U64(static_cast<uint64_t>(sw.at + 1));
    h.U64(static_cast<uint64_t>(sw.to));
  }
  h.U64(ep.races.size());
  // ----- oracles -----
  for (const RaceReport &r : ep.races) {
    SFinding f;
    f.cls = "data_race";
    f.sig = "data_race|" + r.symbol;
    char buf[400];
    snprintf(buf, sizeof(buf),
             "%s by task %d and %s by task %d on static storage %s (pcs %lx, %lx) "
             "unordered by happens-before",
             r.write_a ? "write" : "read", r.task_a, r.write_b ? "write" : "read",
             r.task_b, r.symbol.c_str(), static_cast<unsigned long>(r.pc_a),
             static_cast<unsigned long>(r.pc_b));
    f.detail = buf;
    out->push_back(f);
  }
  for (size_t t = 0; t < ep.results.size(); ++t) {
    if (ep.results[t].size() != solo[t].size()) {
      SFinding f;
      f.cls = "task_unfinished";
      f.sig = "task_unfinished";
      f.detail = "task " + std::to_string(t) + " did not finish";
      out->push_back(f);
      continue;
    }
    for (size_t k = 0; k < solo[t].size(); ++k) {
      if (ep.results[t][k] == solo[t][k]) continue;
      static const char *n[] = {"enc", "dec", "dec_corpus", "canary_race", "canary_guard"};
      SFinding f;
      f.cls = "cross_talk";
      f.sig = std::string("cross_talk|") + n[p.tasks[t][k].kind];
      f.detail = "task " + std::to_string(t) + " op " + std::to_string(k) +
                 ": concurrent result " + std::to_string(ep.results[t][k].ok) + "/" +
                 Hex64(ep.results[t][k].h) + " differs from its solo result " +
                 std::to_string(solo[t][k].ok) + "/" + Hex64(solo[t][k].h);
      out->push_back(f);
    }
  }
  if (ep_out) *ep_out = ep;
  return h.Digest();
}

bool ReadAll(int fd, std::string *out) {
  char buf[65536];
  while (true) {
    ssize_t n = read(fd, buf, sizeof(buf));
    if (n < 0 && errno == EINTR) continue;
    if (n <= 0) break;
    out->append(buf, static_cast<size_t>(n));
  }
  return true;
}
void WriteAllFd(int fd, const std::string &s) {
  size_t off = 0;
  while (off < s.size()) {
    ssize_t n = write(fd, s.data() + off, s.size() - off);
    if (n < 0 && errno == EINTR) continue;
    if (n <= 0) return;
    off += static_cast<size_t>(n);
  }
}

// One episode with process isolation. The calling worker never runs codec code
// itself: a helper child produces the input streams (that warms *its* copy of
// any lazily initialised state), then a second, cold child builds the
// geometries, runs the concurrent phase first and the solo references after,
// and reports. Every episode therefore starts from the state of a freshly
// started process - the "restart" of this simulation - and a static cache or
// table that is still being filled is exposed to the schedule search.
uint64_t RunSPlan(const SPlan &plan_in, const std::string &repo,
                  std::vector<SFinding> *out, Episode *ep_out, SPlan *effective) {
  const SPlan &p = plan_in;
  // ---- helper child: input streams ----
  std::vector<std::vector<OpInput>> in(p.tasks.size());
  {
    int fd[2];
    if (pipe(fd) != 0) abort();
    pid_t pid = fork();
    if (pid == 0) {
      prctl(PR_SET_PDEATHSIG, SIGKILL);
      close(fd[0]);
      std::vector<std::vector<OpInput>> tmp;
      Prepare(p, repo, &tmp);
      std::string blob;
      for (size_t t = 0; t < tmp.size(); ++t)
        for (size_t k = 0; k < tmp[t].size(); ++k) {
          uint64_t hdr[2] = {tmp[t][k].usable ? 1ull : 0ull, tmp[t][k].bytes.size()};
          blob.append(reinterpret_cast<const char *>(hdr), sizeof(hdr));
          blob.append(reinterpret_cast<const char *>(tmp[t][k].bytes.data()),
                      tmp[t][k].bytes.size());
        }
      WriteAllFd(fd[1], blob);
      _exit(0);
    }
    close(fd[1]);
    std::string blob;
    ReadAll(fd[0], &blob);
    close(fd[0]);
    int status = 0;
    waitpid(pid, &status, 0);
    size_t pos = 0;
    bool ok = true;
    for (size_t t = 0; t < p.tasks.size() && ok; ++t)
      for (size_t k = 0; k < p.tasks[t].size(); ++k) {
        OpInput oi;
        if (pos + 16 > blob.size()) {
          ok = false;
          break;
        }
        uint64_t hdr[2];
        memcpy(hdr, blob.data() + pos, 16);
        pos += 16;
        if (pos + hdr[1] > blob.size()) {
          ok = false;
          break;
        }
        oi.usable = hdr[0] != 0;
        oi.bytes.assign(blob.begin() + pos, blob.begin() + pos + hdr[1]);
        pos += hdr[1];
        in[t].push_back(std::move(oi));
      }
    if (!ok) {
      // The writer side died (e.g. an encoder crash while preparing inputs):
      // not a verdict about concurrency.
      Hasher h;
      h.U64(0xdead);
      if (ep_out) *ep_out = Episode();
      return h.Digest();
    }
  }
  // ---- episode child (cold) ----
  int fd[2];
  if (pipe(fd) != 0) abort();
  static int s_marker_fd = -1;
  pid_t pid = fork();
  if (pid == 0) {
    prctl(PR_SET_PDEATHSIG, SIGKILL);
    close(fd[0]);
    // One byte as soon as the concurrent phase is over: the parent tells a
    // concurrent phase that never ends from a slow solo phase.
    s_marker_fd = fd[1];
    g_after_concurrent = [] {
      const char c = 'C';
      ssize_t r = write(s_marker_fd, &c, 1);
      (void)r;
    };
    for (size_t t = 0; t < p.tasks.size(); ++t)
      for (size_t k = 0; k < p.tasks[t].size(); ++k)
        if (p.tasks[t][k].kind == 0 && in[t][k].usable) {
          in[t][k].geom = BuildGeometry(p.tasks[t][k].w);
          if (!in[t][k].geom) in[t][k].usable = false;
        }
    std::vector<SFinding> fs;
    Episode ep;
    const uint64_t h = RunSPlanInProcess(p, in, &fs, &ep);
    Json j = Json::Object();
    j["hash"] = Hex64(h);
    Json fa = Json::Array();
    for (const SFinding &f : fs) {
      Json e = Json::Object();
      e["cls"] = f.cls;
      e["sig"] = f.sig;
      e["detail"] = f.detail;
      fa.push(e);
    }
    j["findings"] = fa;
    Json res = Json::Array();
    for (const auto &tr : ep.results) {
      Json ta = Json::Array();
      for (const OpResult &r : tr) {
        Json e = Json::Array();
        e.push(r.ran);
        e.push(r.ok);
        e.push(r.code);
        e.push(Hex64(r.h));
        ta.push(e);
      }
      res.push(ta);
    }
    j["res"] = res;
    j["static"] = static_cast<unsigned long long>(ep.static_accesses);
    j["total"] = static_cast<unsigned long long>(ep.total_accesses);
    j["yields"] = static_cast<unsigned long long>(ep.yields);
    j["switches"] = static_cast<unsigned long long>(ep.switches);
    j["finished"] = ep.all_finished;
    Json kc = Json::Array();
    for (int k = 0; k < Y_NUM; ++k) kc.push(static_cast<unsigned long long>(ep.kind_count[k]));
    j["kinds"] = kc;
    j["trace_hash"] = Hex64(TraceHash(ep.trace));
    // The trace itself only when somebody needs it (findings, samples).
    if (!fs.empty() || effective) {
      Json tr = Json::Array();
      for (const Switch &sw : ep.trace) {
        Json e = Json::Array();
        e.push(sw.from);
        e.push(static_cast<long long>(sw.at));
        e.push(sw.to);
        tr.push(e);
      }
      j["trace"] = tr;
    }
    WriteAllFd(fd[1], j.Dump());
    _exit(0);
  }
  close(fd[1]);
  std::string text;
  // Wall-clock protection of the episode (harness protection; a verdict only
  // in the one case described below). Stage 1: the concurrent phase.
  auto now_s = [] {
    timespec ts;
    clock_gettime(CLOCK_MONOTONIC, &ts);
    return ts.tv_sec + ts.tv_nsec * 1e-9;
  };
  const double kStageLimit = 40.0;
  auto read_until = [&](double deadline, bool first_byte_only) {
    // Returns false on timeout.
    for (;;) {
      const double left = deadline - now_s();
      if (left <= 0) return false;
      pollfd pf;
      pf.fd = fd[0];
      pf.events = POLLIN;
      const int pr = poll(&pf, 1, static_cast<int>(left * 1000) + 1);
      if (pr < 0 && errno == EINTR) continue;
      if (pr <= 0) continue;
      char buf[65536];
      const ssize_t n = read(fd[0], buf, first_byte_only ? 1 : sizeof(buf));
      if (n < 0 && errno == EINTR) continue;
      if (n <= 0) return true;  // EOF: the child is done (or dead)
      text.append(buf, static_cast<size_t>(n));
      if (first_byte_only) return true;
    }
  };
  const double t_start = now_s();
  bool concurrent_hung = !read_until(t_start + kStageLimit, true);
  bool solo_hung = false;
  if (!concurrent_hung) solo_hung = !read_until(now_s() + kStageLimit, false);
  if (concurrent_hung || solo_hung) kill(pid, SIGKILL);
  close(fd[0]);
  int status = 0;
  waitpid(pid, &status, 0);
  if (!text.empty() && text[0] == 'C') text.erase(0, 1);
  if (concurrent_hung) {
    // Does every task terminate alone? A second cold child runs the solo phase
    // only. The concurrent phase is a serialised execution of the same calls,
    // so with solo time ts it should take a small multiple of ts; a verdict is
    // given only if the limit was more than ten times that (plus slack), the
    // rest is undecided.
    int fd2[2];
    if (pipe(fd2) != 0) abort();
    const double t2 = now_s();
    pid_t pid2 = fork();
    if (pid2 == 0) {
      prctl(PR_SET_PDEATHSIG, SIGKILL);
      close(fd2[0]);
      for (size_t t = 0; t < p.tasks.size(); ++t)
        for (size_t k = 0; k < p.tasks[t].size(); ++k) {
          if (p.tasks[t][k].kind == 0 && in[t][k].usable) {
            in[t][k].geom = BuildGeometry(p.tasks[t][k].w);
            if (!in[t][k].geom) in[t][k].usable = false;
          }
          OpResult r;
          TsanTaskStart(static_cast<int>(t));
          RunOp(p.tasks[t][k], in[t][k], &r);
        }
      const char c = 'S';
      ssize_t r = write(fd2[1], &c, 1);
      (void)r;
      _exit(0);
    }
    close(fd2[1]);
    bool solo_done = false;
    for (;;) {
      const double left = t2 + kStageLimit - now_s();
      if (left <= 0) break;
      pollfd pf;
      pf.fd = fd2[0];
      pf.events = POLLIN;
      const int pr = poll(&pf, 1, static_cast<int>(left * 1000) + 1);
      if (pr < 0 && errno == EINTR) continue;
      if (pr <= 0) continue;
      char c;
      const ssize_t n = read(fd2[0], &c, 1);
      if (n < 0 && errno == EINTR) continue;
      solo_done = n == 1 && c == 'S';
      break;
    }
    const double ts = now_s() - t2;
    if (!solo_done) kill(pid2, SIGKILL);
    close(fd2[0]);
    int st2 = 0;
    waitpid(pid2, &st2, 0);
    Hasher h;
    bool undecided = false;
    if (solo_done && 10.0 * ts + 10.0 <= kStageLimit) {
      SFinding f;
      f.cls = "hang";
      f.sig = "hang_under_schedule";
      char buf[200];
      snprintf(buf, sizeof(buf),
               "the concurrent phase did not finish within %.0f s; the same calls run "
               "alone finish in %.2f s",
               kStageLimit, ts);
      f.detail = buf;
      out->push_back(f);
      if (effective) *effective = p;
      h.Str(f.sig);
    } else {
      undecided = true;
    }
    if (ep_out) {
      *ep_out = Episode();
      ep_out->wallclock = true;
    }
    // 0 = "undecided: wall clock" (left out of the determinism audit).
    return undecided ? 0 : h.Digest();
  }
  if (solo_hung) {
    if (ep_out) {
      *ep_out = Episode();
      ep_out->wallclock = true;
    }
    return 0;
  }
  Json j;
  if (text.empty() || !Json::Parse(text, &j)) {
    SFinding f;
    f.cls = "crash";
    char buf[96];
    snprintf(buf, sizeof(buf), "crash_under_schedule|%s:%d",
             WIFSIGNALED(status) ? "signal" : "exit",
             WIFSIGNALED(status) ? WTERMSIG(status) : WEXITSTATUS(status));
    f.sig = buf;
    f.detail = "the episode process died";
    out->push_back(f);
    if (effective) *effective = p;
    Hasher h;
    h.Str(f.sig);
    return h.Digest();
  }
  Episode ep;
  ep.static_accesses = j.get("static").U64();
  ep.total_accesses = j.get("total").U64();
  ep.yields = j.get("yields").U64();
  ep.switches = j.get("switches").U64();
  ep.all_finished = j.get("finished").Bool();
  for (int k = 0; k < Y_NUM && k < static_cast<int>(j.get("kinds").size()); ++k)
    ep.kind_count[k] = j.get("kinds").at(k).U64();
  const Json &tr = j.get("trace");
  for (size_t i = 0; i < tr.size(); ++i) {
    Switch sw;
    sw.from = static_cast<int>(tr.at(i).at(0).Int());
    sw.at = tr.at(i).at(1).Int();
    sw.to = static_cast<int>(tr.at(i).at(2).Int());
    ep.trace.push_back(sw);
  }
  ep.trace_hash = strtoull(j.get("trace_hash").Str().c_str(), nullptr, 16);
  const Json &fa = j.get("findings");
  for (size_t i = 0; i < fa.size(); ++i) {
    SFinding f;
    f.cls = fa.at(i).get("cls").Str();
    f.sig = fa.at(i).get("sig").Str();
    f.detail = fa.at(i).get("detail").Str();
    out->push_back(f);
  }
  // ---- cold references: every task alone in its own fresh process ----
  // The solo phase above ran in the process that had just executed the
  // concurrent phase: state that a first caller leaves behind (a guarded
  // function-local static initialised from its arguments, a lazily built table
  // parameterised by the first input) is the same in both and cancels out.
  // Here each task runs where nothing ran before it.
  uint64_t cold_mix = 0;
  bool cold_undecided = false;
  if (j.has("res")) {
    const Json &res = j.get("res");
    for (size_t t = 0; t < p.tasks.size() && t < res.size(); ++t) {
      bool has_canary = false;
      for (const SOp &op : p.tasks[t]) has_canary |= op.kind >= 3;
      if (has_canary || res.at(t).size() != p.tasks[t].size()) continue;
      int fd3[2];
      if (pipe(fd3) != 0) abort();
      const double t3 = now_s();
      pid_t pid3 = fork();
      if (pid3 == 0) {
        prctl(PR_SET_PDEATHSIG, SIGKILL);
        close(fd3[0]);
        std::string lines;
        for (size_t k = 0; k < p.tasks[t].size(); ++k) {
          if (p.tasks[t][k].kind == 0 && in[t][k].usable) {
            in[t][k].geom = BuildGeometry(p.tasks[t][k].w);
            if (!in[t][k].geom) in[t][k].usable = false;
          }
          OpResult r;
          TsanTaskStart(static_cast<int>(t));
          RunOp(p.tasks[t][k], in[t][k], &r);
          lines += std::to_string(r.ran) + " " + std::to_string(r.ok) + " " +
                   std::to_string(r.code) + " " + Hex64(r.h) + "\n";
        }
        lines += "done\n";
        WriteAllFd(fd3[1], lines);
        _exit(0);
      }
      close(fd3[1]);
      std::string ctext;
      bool timed_out = false;
      for (;;) {
        const double left = t3 + kStageLimit - now_s();
        if (left <= 0) {
          timed_out = true;
          break;
        }
        pollfd pf;
        pf.fd = fd3[0];
        pf.events = POLLIN;
        const int pr = poll(&pf, 1, static_cast<int>(left * 1000) + 1);
        if (pr < 0 && errno == EINTR) continue;
        if (pr <= 0) continue;
        char buf[4096];
        const ssize_t n = read(fd3[0], buf, sizeof(buf));
        if (n < 0 && errno == EINTR) continue;
        if (n <= 0) break;
        ctext.append(buf, static_cast<size_t>(n));
      }
      if (timed_out) kill(pid3, SIGKILL);
      close(fd3[0]);
      int st3 = 0;
      waitpid(pid3, &st3, 0);
      if (timed_out) cold_undecided = true;
      if (timed_out || ctext.size() < 5 ||
          ctext.compare(ctext.size() - 5, 5, "done\n") != 0)
        continue;  // no reference: no verdict for this task
      size_t pos = 0;
      for (size_t k = 0; k < p.tasks[t].size(); ++k) {
        const size_t e = ctext.find('\n', pos);
        if (e == std::string::npos) break;
        const std::string line = ctext.substr(pos, e - pos);
        pos = e + 1;
        int ran = 0, okv = 0, code = 0;
        char hx[40] = {0};
        if (sscanf(line.c_str(), "%d %d %d %39s", &ran, &okv, &code, hx) != 4) break;
        const Json &cr = res.at(t).at(k);
        const bool same = cr.at(0).Int() == ran && cr.at(1).Int() == okv &&
                          cr.at(2).Int() == code && cr.at(3).Str() == hx;
        cold_mix = mix64(cold_mix, strtoull(hx, nullptr, 16) + static_cast<uint64_t>(okv));
        if (same) continue;
        static const char *n[] = {"enc", "dec", "dec_corpus", "canary_race", "canary_guard"};
        SFinding f;
        f.cls = "cross_talk";
        f.sig = std::string("cross_talk_cold_reference|") + n[p.tasks[t][k].kind];
        f.detail = "task " + std::to_string(t) + " op " + std::to_string(k) +
                   ": concurrent result " + std::to_string(cr.at(1).Int()) + "/" +
                   cr.at(3).Str() + " differs from the result of the same call alone in "
                   "a fresh process " + std::to_string(okv) + "/" + hx +
                   " (state left behind by an earlier call of another task)";
        bool dup = false;
        for (const SFinding &g : *out) dup |= g.sig == f.sig;
        if (!dup) out->push_back(f);
      }
    }
  }
  if (ep_out) *ep_out = ep;
  if (effective) {
    *effective = p;
    effective->strategy = "replay";
    effective->schedule = ep.trace;
  }
  if (cold_undecided) return 0;  // wall clock: left out of the determinism audit
  return mix64(strtoull(j.get("hash").Str().c_str(), nullptr, 16), cold_mix);
}

Json SFindingsToJson(const std::vector<SFinding> &fs, const SPlan &replayable,
                     uint64_t idx) {
  Json arr = Json::Array();
  std::map<std::string, int> seen;
  for (const SFinding &f : fs) {
    if (seen[f.sig]++) continue;
    Json c = Json::Object();
    c["t"] = "cand";
    c["idx"] = static_cast<unsigned long long>(idx);
    c["prop"] = "C19";
    c["class"] = f.cls;
    c["sig"] = f.sig;
    c["detail"] = f.detail;
    c["plan"] = replayable.ToJson();
    arr.push(c);
  }
  return arr;
}

uint64_t TraceHash(const std::vector<Switch> &t) {
  Hasher h;
  for (const Switch &sw : t) {
    h.U64(static_cast<uint64_t>(sw.from + 1));
    h.U64(static_cast<uint64_t>(sw.at + 1));
    h.U64(static_cast<uint64_t>(sw.to));
  }
  return h.Digest();
}

}  // namespace
}  // namespace sim

int SchedMain(const std::map<std::string, std::string> &a, const std::string &cmd) {
  using namespace sim;
  auto get = [&](const char *k, const char *def) {
    auto it = a.find(k);
    return it == a.end() ? std::string(def) : it->second;
  };
  const std::string repo = get("repo", "/repo");
  const std::string tier = get("tier", "quick");
  const uint64_t seed = strtoull(get("seed", "1").c_str(), nullptr, 0);
  const std::string log_dir = get("logdir", ".");
  const int nworkers = atoi(get("workers", "16").c_str());
  const uint64_t sample_mod = strtoull(get("sample-mod", "1").c_str(), nullptr, 0);
  const bool hashlog = get("hashlog", "0") != "0";
  uint64_t total = strtoull(get("max-runs", "0").c_str(), nullptr, 0);
  if (!total) total = tier == "thorough" ? 400000 : (tier == "smoke" ? 100 : 6000);
  const int max_tasks = tier == "thorough" ? 16 : 6;
  TsanSetHooks(&Yield, &CurrentTaskId);
  TsanSetYieldTo(&YieldTo);
  g_alloc_yield = &AllocYield;
  AllocSetHardCap(96ull << 20);
  // Runs 0 and 1 are the canaries (racy static; guarded static initialiser).
  auto plan_for = [&](uint64_t idx) {
    const bool canary = idx < 2;
    uint64_t s = mix64(mix64(seed, label_hash("sched-run")), idx);
    if (canary) s = (s & ~1ull) | (idx == 0 ? 1 : 0);
    return GenerateSPlan(s, max_tasks, canary);
  };

  if (cmd == "batch") {
    Json cands = Json::Array(), samples = Json::Array(), canary_failures = Json::Array();
    uint64_t runs = 0, tasks_run = 0, ops_run = 0, static_acc = 0, total_acc = 0,
             yields = 0, switches = 0, with_switch = 0, wallclock = 0,
             episode_wallclock = 0;
    std::map<std::string, uint64_t> yk, strat, sigcount;
    std::vector<uint64_t> trace_hashes;
    bool canary_race_seen = false, canary_guard_clean = false, canary_disturbed = false;
    static uint64_t w_runs, w_tasks, w_ops, w_static, w_total, w_yields, w_switches, w_with;
    static uint64_t w_wallclock;
    static uint64_t w_yk[Y_NUM];
    static std::map<std::string, uint64_t> w_strat;
    static std::vector<uint64_t> w_traces;
    static std::map<std::string, int> w_emitted;
    PoolCallbacks cb;
    cb.init = [&](int) {
      w_runs = w_tasks = w_ops = w_static = w_total = w_yields = w_switches = w_with = 0;
      w_wallclock = 0;
      memset(w_yk, 0, sizeof(w_yk));
      // No warm-up: the worker itself never runs codec code (see RunSPlan).
    };
    cb.run = [&](uint64_t idx, std::string *out) {
      if (sample_mod > 1 && idx % sample_mod != 0 && idx >= 2) return;
      SPlan p = plan_for(idx);
      std::vector<SFinding> fs;
      Episode ep;
      SPlan eff;
      const uint64_t h = RunSPlan(p, repo, &fs, &ep, &eff);
      ++w_runs;
      w_tasks += p.tasks.size();
      for (auto &t : p.tasks) w_ops += t.size();
      w_static += ep.static_accesses;
      w_total += ep.total_accesses;
      w_yields += ep.yields;
      w_switches += ep.switches;
      if (ep.switches) ++w_with;
      if (ep.wallclock) ++w_wallclock;
      for (int k = 0; k < Y_NUM; ++k) w_yk[k] += ep.kind_count[k];
      ++w_strat[p.strategy];
      w_traces.push_back(ep.trace_hash);
      if (hashlog) PoolLogRunHash(idx, h);
      if (idx < 2) {
        // Canaries: the racy static must be reported; the guarded initialiser
        // must not.
        Json c = Json::Object();
        c["t"] = "canary";
        c["idx"] = static_cast<unsigned long long>(idx);
        bool race = false;
        std::vector<SFinding> foreign;  // findings that are not about the canary
        for (const SFinding &f : fs) {
          if (f.sig.find("canary") == std::string::npos) foreign.push_back(f);
          if (f.cls == "data_race" && f.sig.find("canary") != std::string::npos) race = true;
        }
        c["race"] = race;
        c["findings"] = static_cast<unsigned long long>(fs.size() - foreign.size());
        c["foreign"] = static_cast<unsigned long long>(foreign.size());
        c["static_accesses"] = static_cast<unsigned long long>(ep.static_accesses);
        *out += c.Dump();
        *out += '\n';
        // A canary episode also runs real codec calls: what those expose is a
        // finding about the library like any other (and may have ended the
        // episode before the canary ran), never a fault of the machinery.
        if (!foreign.empty()) {
          Json arr = SFindingsToJson(foreign, eff, idx);
          for (size_t i = 0; i < arr.size(); ++i) {
            if (w_emitted[arr.at(i).get("sig").Str()]++ >= 3) continue;
            *out += arr.at(i).Dump();
            *out += '\n';
          }
        }
        return;
      }
      if (!fs.empty()) {
        Json arr = SFindingsToJson(fs, eff, idx);
        for (size_t i = 0; i < arr.size(); ++i) {
          if (w_emitted[arr.at(i).get("sig").Str()]++ >= 3) continue;
          *out += arr.at(i).Dump();
          *out += '\n';
        }
      }
      if (idx >= 2 && idx <= 4) {
        Json s = Json::Object();
        s["t"] = "sample";
        s["idx"] = static_cast<unsigned long long>(idx);
        SPlan brief = p;
        s["plan"] = brief.ToJson();
        s["context_switches"] = static_cast<unsigned long long>(ep.switches);
        s["preemption_points"] = static_cast<unsigned long long>(ep.yields);
        Json tr = Json::Array();
        for (size_t i = 0; i < ep.trace.size() && i < 24; ++i) {
          Json e = Json::Array();
          e.push(ep.trace[i].from);
          e.push(static_cast<long long>(ep.trace[i].at));
          e.push(ep.trace[i].to);
          tr.push(e);
        }
        s["schedule_head"] = tr;
        *out += s.Dump();
        *out += '\n';
      }
    };
    cb.finish = [&](int w, std::string *out) {
      Json s = Json::Object();
      s["t"] = "stats";
      s["runs"] = static_cast<unsigned long long>(w_runs);
      s["tasks"] = static_cast<unsigned long long>(w_tasks);
      s["ops"] = static_cast<unsigned long long>(w_ops);
      s["static"] = static_cast<unsigned long long>(w_static);
      s["total"] = static_cast<unsigned long long>(w_total);
      s["yields"] = static_cast<unsigned long long>(w_yields);
      s["switches"] = static_cast<unsigned long long>(w_switches);
      s["with_switch"] = static_cast<unsigned long long>(w_with);
      s["wallclock"] = static_cast<unsigned long long>(w_wallclock);
      Json y = Json::Object();
      for (int k = 0; k < Y_NUM; ++k) y[kYieldNames[k]] = static_cast<unsigned long long>(w_yk[k]);
      s["yk"] = y;
      Json st = Json::Object();
      for (auto &kv : w_strat) st[kv.first] = static_cast<unsigned long long>(kv.second);
      s["strat"] = st;
      *out += s.Dump();
      *out += '\n';
      char name[512];
      snprintf(name, sizeof(name), "%s/traces.%d.bin", log_dir.c_str(), w);
      FILE *f = fopen(name, "ab");
      if (f) {
        fwrite(w_traces.data(), 8, w_traces.size(), f);
        fclose(f);
      }
    };
    cb.on_line = [&](const std::string &line) {
      Json j;
      if (!Json::Parse(line, &j)) return;
      const std::string t = j.get("t").Str();
      if (t == "cand") {
        ++sigcount[j.get("sig").Str()];
        if (cands.size() < 200) cands.push(j);
      } else if (t == "sample") {
        samples.push(j);
      } else if (t == "canary") {
        if (j.get("idx").U64() == 0) {
          // Not seen AND nothing else found: the detector is blind. Not seen
          // because a finding about the library ended the episode: reported
          // as that finding.
          canary_race_seen = j.get("race").Bool();
          canary_disturbed = !canary_race_seen && j.get("foreign").U64() > 0;
          if (!canary_race_seen && !canary_disturbed) canary_failures.push(j);
        } else {
          canary_guard_clean = !j.get("race").Bool() && j.get("findings").U64() == 0;
          if (!canary_guard_clean) canary_failures.push(j);
        }
      } else if (t == "stats") {
        runs += j.get("runs").U64();
        tasks_run += j.get("tasks").U64();
        ops_run += j.get("ops").U64();
        static_acc += j.get("static").U64();
        total_acc += j.get("total").U64();
        yields += j.get("yields").U64();
        switches += j.get("switches").U64();
        with_switch += j.get("with_switch").U64();
        if (j.has("wallclock")) episode_wallclock += j.get("wallclock").U64();
        for (auto &kv : j.get("yk").items()) yk[kv.first] += kv.second.U64();
        for (auto &kv : j.get("strat").items()) strat[kv.first] += kv.second.U64();
      }
    };
    cb.on_death = [&](const PoolDeath &d) {
      std::string sig, excerpt;
      const std::string cls = ClassifyDeath(d, &sig, &excerpt);
      if (cls == "wallclock") {
        ++wallclock;
        return;
      }
      Json c = Json::Object();
      c["t"] = d.in_run ? "cand" : "machinery";
      c["idx"] = static_cast<unsigned long long>(d.idx);
      c["prop"] = "C19";
      c["class"] = "crash";
      c["sig"] = "crash_under_schedule|" + sig;
      c["detail"] = "worker died during a concurrent episode: " + cls;
      c["log"] = excerpt;
      if (d.in_run) c["plan"] = plan_for(d.idx).ToJson();
      cands.push(c);
    };
    PoolOptions po;
    po.workers = nworkers;
    po.begin = 0;
    po.end = total;
    po.budget_s = atof(get("budget", "0").c_str());
    po.log_dir = log_dir;
    po.hashlog = hashlog;
    po.permute = po.budget_s > 0;
    PoolResult pr = RunPool(po, cb);
    for (int w = 0; w < 64; ++w) {
      char name[512];
      snprintf(name, sizeof(name), "%s/traces.%d.bin", log_dir.c_str(), w);
      std::string s;
      if (!ReadFile(name, &s)) continue;
      size_t n = s.size() / 8, old = trace_hashes.size();
      trace_hashes.resize(old + n);
      memcpy(trace_hashes.data() + old, s.data(), n * 8);
    }
    std::sort(trace_hashes.begin(), trace_hashes.end());
    trace_hashes.erase(std::unique(trace_hashes.begin(), trace_hashes.end()),
                       trace_hashes.end());
    Json sum = Json::Object();
    sum["engine"] = "sched";
    sum["tier"] = tier;
    sum["seed"] = static_cast<unsigned long long>(seed);
    sum["total_planned"] = static_cast<unsigned long long>(total);
    sum["runs"] = static_cast<unsigned long long>(runs);
    sum["calls"] = static_cast<unsigned long long>(runs);
    sum["tasks_run"] = static_cast<unsigned long long>(tasks_run);
    sum["results_compared"] = static_cast<unsigned long long>(ops_run);
    sum["shared_static_accesses"] = static_cast<unsigned long long>(static_acc);
    sum["accesses_instrumented"] = static_cast<unsigned long long>(total_acc);
    sum["preemption_points"] = static_cast<unsigned long long>(yields);
    sum["context_switches"] = static_cast<unsigned long long>(switches);
    sum["distinct_schedules"] = static_cast<unsigned long long>(trace_hashes.size());
    sum["distinct_nontrivial"] = static_cast<unsigned long long>(trace_hashes.size());
    sum["runs_with_switch"] = static_cast<unsigned long long>(with_switch);
    sum["undecided_wallclock"] = static_cast<unsigned long long>(wallclock + episode_wallclock);
    sum["static_symbols"] = static_cast<unsigned long long>(TsanNumSymbols());
    sum["static_bytes"] = static_cast<unsigned long long>(TsanStaticBytes());
    sum["wall_s"] = pr.wall_s;
    sum["deaths"] = static_cast<unsigned long long>(pr.deaths);
    Json y = Json::Object();
    for (auto &kv : yk) y[kv.first] = static_cast<unsigned long long>(kv.second);
    sum["yield_kinds"] = y;
    Json st = Json::Object();
    for (auto &kv : strat) st[kv.first] = static_cast<unsigned long long>(kv.second);
    sum["strategies"] = st;
    Json can = Json::Object();
    can["racy_static_reported"] = canary_race_seen;
    can["guarded_initialiser_silent"] = canary_guard_clean;
    sum["canaries"] = can;
    can["racy_static_episode_ended_by_library_finding"] = canary_disturbed;
    if (sample_mod <= 1 && ((!canary_race_seen && !canary_disturbed) || !canary_guard_clean)) {
      if (canary_failures.size() == 0) canary_failures.push("canary run missing");
      sum["canary_failures"] = canary_failures;
    }
    Json sc = Json::Object();
    for (auto &kv : sigcount) sc[kv.first] = static_cast<unsigned long long>(kv.second);
    sum["sig_counts"] = sc;
    sum["candidates"] = cands;
    sum["samples"] = samples;
    WriteFile(get("out", "/dev/stdout"), sum.Dump());
    return 0;
  }
  if (cmd == "exec") {
    std::string text;
    if (!ReadFile(get("plans", ""), &text)) return 2;
    std::vector<Json> plans;
    size_t pos = 0;
    while (pos < text.size()) {
      size_t e = text.find('\n', pos);
      if (e == std::string::npos) e = text.size();
      std::string line = text.substr(pos, e - pos);
      pos = e + 1;
      if (line.empty()) continue;
      Json j;
      if (!Json::Parse(line, &j)) j = Json::Object();
      plans.push_back(j);
    }
    std::map<uint64_t, std::string> results;
    PoolCallbacks cb;
    cb.run = [&](uint64_t n, std::string *out) {
      SPlan p = SPlan::FromJson(plans[n]);
      std::vector<SFinding> fs;
      Episode ep;
      SPlan eff;
      const uint64_t h = RunSPlan(p, repo, &fs, &ep, &eff);
      Json res = Json::Object();
      res["t"] = "result";
      res["n"] = static_cast<unsigned long long>(n);
      Json cs = SFindingsToJson(fs, eff, n);
      for (size_t i = 0; i < cs.size(); ++i) cs.at(i).erase("plan");
      res["cands"] = cs;
      Json r = Json::Object();
      r["context_switches"] = static_cast<unsigned long long>(ep.switches);
      r["preemption_points"] = static_cast<unsigned long long>(ep.yields);
      r["static_accesses"] = static_cast<unsigned long long>(ep.static_accesses);
      Json arr = Json::Array();
      arr.push(r);
      res["results"] = arr;
      res["hash"] = Hex64(h);
      *out += res.Dump();
      *out += '\n';
    };
    cb.on_line = [&](const std::string &line) {
      Json j;
      if (Json::Parse(line, &j)) results[j.get("n").U64()] = line;
    };
    cb.on_death = [&](const PoolDeath &d) {
      std::string sig, excerpt;
      const std::string cls = ClassifyDeath(d, &sig, &excerpt);
      Json res = Json::Object();
      res["t"] = "result";
      res["n"] = static_cast<unsigned long long>(d.idx);
      Json cs = Json::Array();
      if (cls != "wallclock") {
        Json c = Json::Object();
        c["prop"] = "C19";
        c["class"] = "crash";
        c["sig"] = "crash_under_schedule|" + sig;
        c["detail"] = cls;
        cs.push(c);
      }
      res["cands"] = cs;
      res["results"] = Json::Array();
      res["hash"] = "crash:" + sig;
      results[d.idx] = res.Dump();
    };
    PoolOptions po;
    po.workers = nworkers;
    po.begin = 0;
    po.end = plans.size();
    po.log_dir = log_dir;
    RunPool(po, cb);
    FILE *out = fopen(get("out", "/dev/stdout").c_str(), "w");
    if (!out) return 2;
    for (uint64_t n = 0; n < plans.size(); ++n) {
      auto it = results.find(n);
      if (it == results.end()) {
        fprintf(out, "{\"t\":\"result\",\"n\":%llu,\"cands\":[],\"results\":[]}\n",
                static_cast<unsigned long long>(n));
      } else {
        fprintf(out, "%s\n", it->second.c_str());
      }
    }
    fclose(out);
    return 0;
  }
  return 2;
}
