// Command line of the simulator binary. One binary per libdraco build variant.
//   sim chan batch  --tier T --seed S --out F --logdir D [--workers N]
//                   [--budget SEC] [--max-runs N] [--repo DIR]
//   sim chan exec   --plans F --out F [--repo DIR]
//   sim chan planof --tier T --seed S --idx I
#include <execinfo.h>
#include <unistd.h>

#include <cstdio>
#include <cstdlib>
#include <cstring>
#include <exception>
#include <map>
#include <string>

#include "alloc.h"
#include "chan.h"

#ifdef SIM_HAVE_PRIM
int PrimMain(const std::map<std::string, std::string> &args,
             const std::string &cmd);
#endif
#ifdef SIM_HAVE_ENV
int EnvMain(const std::map<std::string, std::string> &args,
            const std::string &cmd);
#endif
#ifdef SIM_HAVE_SCHED
int SchedMain(const std::map<std::string, std::string> &args,
              const std::string &cmd);
#endif

// Sanitizer defaults: classify, do not flood.
extern "C" __attribute__((used, visibility("default"))) const char *
__asan_default_options() {
  return "exitcode=77:detect_leaks=0:allocator_may_return_null=1:abort_on_error=0:"
         "handle_abort=0:detect_stack_use_after_return=0:"
         "symbolize=0:malloc_context_size=8:max_malloc_fill_size=4096";
}
extern "C" __attribute__((used, visibility("default"))) const char *
__ubsan_default_options() {
  return "halt_on_error=1:print_stacktrace=1:exitcode=76:symbolize=0";
}

namespace {

void OnTerminate() {
  // A terminate caused by an allocation refusal inside the C18 bound is the
  // abnormal exit C02 tolerates; anything else is reported.
  const sim::AllocStats &st = sim::AllocGetStats();
  if (st.refused_inside && !st.refused_outside) {
    const char *m = "TOLERATED_TERMINATE\n";
    ssize_t r = write(2, m, strlen(m));
    (void)r;
    _exit(78);
  }
  const char *m = "SIM_TERMINATE\n";
  ssize_t r = write(2, m, strlen(m));
  (void)r;
  void *bt[32];
  int n = backtrace(bt, 32);
  backtrace_symbols_fd(bt, n, 2);
  _exit(79);
}

}  // namespace

int main(int argc, char **argv) {
  std::set_terminate(OnTerminate);
  {
    // Warm backtrace() (first call loads libgcc and allocates).
    void *bt[4];
    backtrace(bt, 4);
  }
  if (argc < 3) {
    fprintf(stderr, "usage: sim <engine> <command> [--key value]...\n");
    return 2;
  }
  const std::string engine = argv[1], cmd = argv[2];
  std::map<std::string, std::string> a;
  for (int i = 3; i + 1 < argc; i += 2) {
    if (strncmp(argv[i], "--", 2) != 0) {
      fprintf(stderr, "bad argument %s\n", argv[i]);
      return 2;
    }
    a[argv[i] + 2] = argv[i + 1];
  }
  auto get = [&](const char *k, const char *def) {
    auto it = a.find(k);
    return it == a.end() ? std::string(def) : it->second;
  };
  if (engine == "chan") {
    sim::ChanOptions o;
    o.tier = get("tier", "quick");
    o.seed = strtoull(get("seed", "1").c_str(), nullptr, 0);
    o.repo = get("repo", "/repo");
    o.out_path = get("out", "/dev/stdout");
    o.log_dir = get("logdir", ".");
    o.workers = atoi(get("workers", "16").c_str());
    o.budget_s = atof(get("budget", "0").c_str());
    o.max_runs = strtoull(get("max-runs", "0").c_str(), nullptr, 0);
    o.sample_mod = strtoull(get("sample-mod", "1").c_str(), nullptr, 0);
    o.hashlog = get("hashlog", "0") != "0";
    o.max_deaths = strtoull(get("max-deaths", "0").c_str(), nullptr, 0);
    if (cmd == "batch") return sim::ChanBatch(o);
    if (cmd == "canary") return sim::ChanCanary(o);
    if (cmd == "exec")
      return sim::ChanExec(get("plans", ""), get("out", "/dev/stdout"), o.repo,
                           atoi(get("workers", "1").c_str()), o.log_dir);
    if (cmd == "planof")
      return sim::ChanPlanOf(o, get("idx", "0"));
  }
#ifdef SIM_HAVE_PRIM
  if (engine == "prim") return PrimMain(a, cmd);
#endif
#ifdef SIM_HAVE_ENV
  if (engine == "env") return EnvMain(a, cmd);
#endif
#ifdef SIM_HAVE_SCHED
  if (engine == "sched") return SchedMain(a, cmd);
#endif
  fprintf(stderr, "unknown engine/command %s %s\n", engine.c_str(), cmd.c_str());
  return 2;
}
