// Writer stub for the deprecated *predictive* Edgebreaker traversal coding.
// The library still ships (and explicitly instantiates) the encoder for it,
// MeshEdgebreakerEncoderImpl<MeshEdgebreakerTraversalPredictiveEncoder>, but
// MeshEdgebreakerEncoder::InitializeEncoder no longer selects it, so no current
// API call writes such a stream while every decoder build still accepts one.
// The stub is a subclass that overrides only that selection; all encoding is
// done by the library's own code. It needs access to the private |impl_| member
// of MeshEdgebreakerEncoder, hence the access-specifier seam below (this file
// only; every header that mesh_edgebreaker_encoder.h pulls in is included
// before it, so nothing else is affected).
#include <memory>
#include <string>
#include <unordered_map>
#include <vector>

#include "draco/compression/encode.h"
#include "draco/compression/mesh/mesh_edgebreaker_encoder_impl_interface.h"
#include "draco/compression/mesh/mesh_edgebreaker_shared.h"
#include "draco/compression/mesh/mesh_encoder.h"
#include "draco/core/encoder_buffer.h"
#include "work.h"

#define private protected
#include "draco/compression/mesh/mesh_edgebreaker_encoder.h"
#undef private

#include "draco/compression/mesh/mesh_edgebreaker_encoder_impl.h"
#include "draco/compression/mesh/mesh_edgebreaker_traversal_predictive_encoder.h"

namespace sim {

namespace {

class PredictiveEdgebreakerEncoder : public draco::MeshEdgebreakerEncoder {
 protected:
  bool InitializeEncoder() override {
    buffer()->Encode(
        static_cast<uint8_t>(draco::MESH_EDGEBREAKER_PREDICTIVE_ENCODING));
    impl_ = std::unique_ptr<draco::MeshEdgebreakerEncoderImplInterface>(
        new draco::MeshEdgebreakerEncoderImpl<
            draco::MeshEdgebreakerTraversalPredictiveEncoder>());
    return impl_->Init(this);
  }
};

}  // namespace

bool EncodePredictiveEdgebreaker(const Workload &w, const draco::Mesh &mesh,
                                 std::vector<uint8_t> *out, std::string *err) {
  draco::Encoder tmp;
  Workload o = w;
  o.method = 1;
  o.eb_method = -1;
  ApplyOptions(o, &tmp);
  draco::EncoderOptions eo = tmp.CreateExpertEncoderOptions(mesh);
  PredictiveEdgebreakerEncoder enc;
  enc.SetMesh(mesh);
  draco::EncoderBuffer buf;
  const draco::Status st = enc.Encode(eo, &buf);
  if (!st.ok()) {
    if (err) *err = "predictive edgebreaker stub: " + st.error_msg_string();
    return false;
  }
  out->assign(reinterpret_cast<const uint8_t *>(buf.data()),
              reinterpret_cast<const uint8_t *>(buf.data()) + buf.size());
  return true;
}

}  // namespace sim
