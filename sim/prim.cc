// Engine `prim` (C17): the bitstream primitives as a stream layer. A plan is an
// operation sequence on one EncoderBuffer (interleaved byte-mode and bit-mode
// writes, entropy coded blocks); the reader mirrors it through the matching
// read calls against a reference model (the op list), with EOF injected at
// every byte, reads issued past the written data, and bit flips inside blocks.
#include <cmath>
#include <map>
#include <string>
#include <vector>

#include "alloc.h"
#include "common.h"
#include "draco/compression/bit_coders/adaptive_rans_bit_decoder.h"
#include "draco/compression/bit_coders/adaptive_rans_bit_encoder.h"
#include "draco/compression/bit_coders/direct_bit_decoder.h"
#include "draco/compression/bit_coders/direct_bit_encoder.h"
#include "draco/compression/bit_coders/folded_integer_bit_decoder.h"
#include "draco/compression/bit_coders/folded_integer_bit_encoder.h"
#include "draco/compression/bit_coders/rans_bit_decoder.h"
#include "draco/compression/bit_coders/rans_bit_encoder.h"
#include "draco/compression/bit_coders/symbol_bit_decoder.h"
#include "draco/compression/bit_coders/symbol_bit_encoder.h"
#include "draco/compression/config/compression_shared.h"
#include "draco/compression/entropy/symbol_decoding.h"
#include "draco/compression/entropy/symbol_encoding.h"
#include "draco/core/bit_utils.h"
#include "draco/core/decoder_buffer.h"
#include "draco/core/encoder_buffer.h"
#include "draco/core/varint_decoding.h"
#include "draco/core/varint_encoding.h"
#include "medium.h"
#include "pool.h"
#include "steps.h"

namespace sim {
namespace {

enum PKind {
  P_SCALAR = 0,   // b = type (0..8: u8 i8 u16 i16 u32 i32 u64 i64 f32), a = bits
  P_BYTES,        // a = n, seed
  P_VARINT,       // b = type (0..7), a = bits
  P_BITREGION,    // a = count, b = with size, c = width mode, seed
  P_RANS,         // a = count, b = bias/256, c = mode, seed
  P_ADAPTIVE,
  P_DIRECT,
  P_FOLDED,
  P_SYMBOLBITS,
  P_SYMBOLS,      // a = n, b = components, c = scheme | level << 2, d = max bits
  P_NUM
};
const char *kPNames[P_NUM] = {"scalar", "bytes",  "varint", "bitregion",  "rans",
                              "adaptive", "direct", "folded", "symbolbits", "symbols"};

struct POp {
  int k = 0;
  uint64_t a = 0;
  int b = 0, c = 0, d = 0;
  uint64_t seed = 0;
  Json ToJson() const {
    Json j = Json::Object();
    j["k"] = kPNames[k];
    j["a"] = Hex64(a);
    j["b"] = b;
    j["c"] = c;
    j["d"] = d;
    j["seed"] = static_cast<unsigned long long>(seed);
    return j;
  }
  static POp FromJson(const Json &j) {
    POp o;
    for (int i = 0; i < P_NUM; ++i)
      if (j.get("k").Str() == kPNames[i]) o.k = i;
    o.a = strtoull(j.get("a").Str().c_str(), nullptr, 16);
    o.b = static_cast<int>(j.get("b").Int());
    o.c = static_cast<int>(j.get("c").Int());
    o.d = static_cast<int>(j.get("d").Int());
    o.seed = j.get("seed").U64();
    return o;
  }
};

struct PFault {
  int kind = 0;  // 0 = all, 1 none, 2 trunc(t), 3 extra reads, 4 flip(bit)
  int64_t t = 0;
};

struct PPlan {
  std::vector<POp> ops;
  PFault fault;
  bool exhaustive = false;  // the plain enumeration part (no ops, no faults)
  Json ToJson() const {
    Json j = Json::Object();
    j["engine"] = "prim";
    if (exhaustive) j["exhaustive"] = 1;
    Json o = Json::Array();
    for (const POp &op : ops) o.push(op.ToJson());
    j["ops"] = o;
    static const char *fk[] = {"all", "none", "trunc", "extra", "flip"};
    Json f = Json::Object();
    f["kind"] = fk[fault.kind];
    f["t"] = static_cast<long long>(fault.t);
    j["fault"] = f;
    return j;
  }
  static PPlan FromJson(const Json &j) {
    PPlan p;
    for (size_t i = 0; i < j.get("ops").size(); ++i)
      p.ops.push_back(POp::FromJson(j.get("ops").at(i)));
    const std::string k = j.get("fault").get("kind").Str();
    p.fault.kind = k == "none" ? 1 : k == "trunc" ? 2 : k == "extra" ? 3 : k == "flip" ? 4 : 0;
    p.fault.t = j.get("fault").get("t").Int();
    p.exhaustive = j.has("exhaustive") && j.get("exhaustive").Int() != 0;
    return p;
  }
};

// Values of an op, regenerated from its seed.
struct BitItem {
  int nbits;  // 0 = single bit via EncodeBit
  uint32_t v;
};

uint32_t MaskBits(uint32_t v, int n) { return n >= 32 ? v : (v & ((1u << n) - 1)); }

std::vector<BitItem> BitItems(const POp &op, bool bits_only, bool single_bit_api) {
  std::vector<BitItem> out;
  Rng r(op.seed);
  const uint64_t count = op.a;
  for (uint64_t i = 0; i < count; ++i) {
    BitItem it;
    bool one = r.Below(256) < static_cast<uint64_t>(op.b);
    // Run-structured streams: a long run of one value, then the other (what
    // drives adaptive probabilities into their clamps).
    if (op.b == 257) one = i + 8 >= count ? r.Chance(1, 2) : false;
    if (op.b == 258) one = i + 8 >= count ? r.Chance(1, 2) : true;
    if (bits_only || (op.c == 0 && single_bit_api)) {
      it.nbits = 0;
      it.v = one;
    } else if (op.c == 0 || (op.c == 1 && r.Chance(1, 2) && single_bit_api)) {
      it.nbits = single_bit_api ? 0 : 1;
      it.v = one;
    } else {
      int w = op.c >= 2 ? op.c - 1 : static_cast<int>(r.Range(1, 32));
      if (w > 32) w = 32;
      uint32_t v;
      switch (r.Below(5)) {
        case 0:
          v = 0;
          break;
        case 1:
          v = 0xffffffffu;
          break;
        case 2:
          v = 1u << (w - 1);
          break;
        default:
          v = static_cast<uint32_t>(r.Next());
          // Bias the bits like the single-bit stream.
          if (op.b < 64) v &= static_cast<uint32_t>(r.Next());
          if (op.b > 192) v |= static_cast<uint32_t>(r.Next());
          break;
      }
      it.nbits = w;
      it.v = MaskBits(v, w);
    }
    out.push_back(it);
  }
  return out;
}

// Items of a bit region. With op.d > 0 the base items are repeated / trimmed so
// that the region is exactly as long as a size whose varint changes length
// (127..129, 255/256, 16383..16385 bytes, minus 0..7 bits).
std::vector<BitItem> RegionItems(const POp &op) {
  std::vector<BitItem> items = BitItems(op, false, false);
  if (op.d <= 0) return items;
  static const int64_t kBytes[] = {127, 128, 129, 16383, 16384, 16385, 255, 256};
  const int64_t target = kBytes[(op.d - 1) % 8] * 8 - static_cast<int64_t>((op.seed >> 8) % 8);
  if (items.empty()) {
    BitItem it;
    it.nbits = 8;
    it.v = 0xA5;
    items.push_back(it);
  }
  std::vector<BitItem> out;
  int64_t bits = 0;
  for (size_t i = 0; bits < target; ++i) {
    BitItem it = items[i % items.size()];
    if (it.nbits < 1) it.nbits = 1;
    if (bits + it.nbits > target) {
      it.nbits = static_cast<int>(target - bits);
      it.v = MaskBits(it.v, it.nbits);
    }
    out.push_back(it);
    bits += it.nbits;
  }
  return out;
}

std::vector<uint32_t> SymbolValues(const POp &op) {
  Rng r(op.seed);
  if (op.d >= 100) {
    // Table-shape mode: K distinct symbols with equal counts plus one dominant
    // symbol whose share of the total puts its normalised probability on (or
    // next to) a boundary of the variable-length table entries (2^6, 2^14) at
    // the rANS precision this symbol count and compression level select.
    const int j = op.d - 100;
    const size_t K = static_cast<size_t>(128) << (j % 4);
    const size_t reps = 8;
    int bits = 0;
    for (size_t u = K + 1; u; u >>= 1) ++bits;  // MostSignificantBit(K + 1) + 1
    const int level = (op.c >> 2) % 11;
    if (level < 4) {
      bits -= 2;
    } else if (level < 6) {
      bits -= 1;
    } else if (level > 9) {
      bits += 2;
    } else if (level > 7) {
      bits += 1;
    }
    bits = std::min(std::max(1, bits), 18);
    const int prec = std::min(20, std::max(12, 3 * bits / 2));
    const int boundary = ((j & 4) && prec >= 15) ? 14 : 6;
    const double share = 1.0 / static_cast<double>(1u << (prec - boundary));
    const double rest = static_cast<double>(K * reps);
    const double jitter = 1.0 + (r.Unit() - 0.5) * 0.06;
    size_t Z = static_cast<size_t>(rest * share / (1.0 - share) * jitter);
    if (Z < 1) Z = 1;
    std::vector<uint32_t> v;
    v.reserve(K * reps + Z);
    for (size_t k = 1; k <= K; ++k)
      for (size_t q = 0; q < reps; ++q) v.push_back(static_cast<uint32_t>(k));
    for (size_t z = 0; z < Z; ++z) v.push_back(0);
    for (size_t i = v.size(); i > 1; --i) std::swap(v[i - 1], v[r.Below(i)]);
    return v;
  }
  const size_t n = static_cast<size_t>(op.a) * (op.b < 1 ? 1 : op.b);
  std::vector<uint32_t> v(n);
  const int maxbits = op.d < 1 ? 1 : (op.d > 22 ? 22 : op.d);
  const int dist = static_cast<int>(r.Below(4));
  for (size_t i = 0; i < n; ++i) {
    uint32_t x;
    switch (dist) {
      case 0:
        x = static_cast<uint32_t>(r.Below(1ull << maxbits));
        break;
      case 1:
        x = r.Chance(9, 10) ? static_cast<uint32_t>(r.Below(4))
                            : static_cast<uint32_t>(r.Below(1ull << maxbits));
        break;
      case 2:
        x = 5;
        break;
      default:
        x = i == n / 2 ? (1u << maxbits) - 1 : static_cast<uint32_t>(r.Below(3));
        break;
    }
    v[i] = x;
  }
  return v;
}

template <typename T>
T FromBits(uint64_t bits) {
  T v;
  memcpy(&v, &bits, sizeof(T));
  return v;
}

// ------------------------------------------------------------- writer -----
struct Written {
  std::vector<uint8_t> bytes;
  std::vector<size_t> end;  // writer position after op k
  std::vector<int> ok;      // writer accepted op k
};

template <class EncT>
void WriteBitBlock(const POp &op, bool single_bit_api, draco::EncoderBuffer *buf) {
  EncT enc;
  enc.StartEncoding();
  for (const BitItem &it : BitItems(op, false, single_bit_api)) {
    if (it.nbits == 0) {
      enc.EncodeBit(it.v != 0);
    } else {
      enc.EncodeLeastSignificantBits32(it.nbits, it.v);
    }
  }
  enc.EndEncoding(buf);
}

bool WriteOp(const POp &op, draco::EncoderBuffer *buf) {
  switch (op.k) {
    case P_SCALAR:
      switch (op.b) {
        case 0:
          return buf->Encode(FromBits<uint8_t>(op.a));
        case 1:
          return buf->Encode(FromBits<int8_t>(op.a));
        case 2:
          return buf->Encode(FromBits<uint16_t>(op.a));
        case 3:
          return buf->Encode(FromBits<int16_t>(op.a));
        case 4:
          return buf->Encode(FromBits<uint32_t>(op.a));
        case 5:
          return buf->Encode(FromBits<int32_t>(op.a));
        case 6:
          return buf->Encode(FromBits<uint64_t>(op.a));
        case 7:
          return buf->Encode(FromBits<int64_t>(op.a));
        default:
          return buf->Encode(FromBits<float>(op.a));
      }
    case P_BYTES: {
      std::vector<uint8_t> d(static_cast<size_t>(op.a));
      uint64_t s = op.seed;
      for (auto &x : d) x = static_cast<uint8_t>(splitmix64(&s));
      return buf->Encode(d.data(), d.size());
    }
    case P_VARINT:
      switch (op.b) {
        case 0:
          return draco::EncodeVarint(FromBits<uint8_t>(op.a), buf);
        case 1:
          return draco::EncodeVarint(FromBits<int8_t>(op.a), buf);
        case 2:
          return draco::EncodeVarint(FromBits<uint16_t>(op.a), buf);
        case 3:
          return draco::EncodeVarint(FromBits<int16_t>(op.a), buf);
        case 4:
          return draco::EncodeVarint(FromBits<uint32_t>(op.a), buf);
        case 5:
          return draco::EncodeVarint(FromBits<int32_t>(op.a), buf);
        case 6:
          return draco::EncodeVarint(FromBits<uint64_t>(op.a), buf);
        default:
          return draco::EncodeVarint(FromBits<int64_t>(op.a), buf);
      }
    case P_BITREGION: {
      std::vector<BitItem> items = RegionItems(op);
      int64_t bits = 0;
      for (const BitItem &it : items) bits += it.nbits;
      if (bits == 0) return true;  // an empty region cannot be started
      // Reserve sometimes exactly, sometimes generously.
      const int64_t reserve = (op.seed & 1) ? bits : bits + static_cast<int64_t>(op.seed % 97);
      if (!buf->StartBitEncoding(reserve, op.b != 0)) return false;
      for (const BitItem &it : items)
        if (!buf->EncodeLeastSignificantBits32(it.nbits, it.v)) return false;
      buf->EndBitEncoding();
      return true;
    }
    case P_RANS:
      WriteBitBlock<draco::RAnsBitEncoder>(op, true, buf);
      return true;
    case P_ADAPTIVE:
      WriteBitBlock<draco::AdaptiveRAnsBitEncoder>(op, true, buf);
      return true;
    case P_DIRECT:
      WriteBitBlock<draco::DirectBitEncoder>(op, true, buf);
      return true;
    case P_FOLDED:
      WriteBitBlock<draco::FoldedBit32Encoder<draco::RAnsBitEncoder>>(op, true, buf);
      return true;
    case P_SYMBOLBITS:
      if (op.a == 0) return true;
      WriteBitBlock<draco::SymbolBitEncoder>(op, true, buf);
      return true;
    case P_SYMBOLS: {
      std::vector<uint32_t> v = SymbolValues(op);
      draco::Options opt;
      const int scheme = op.c & 3;
      if (scheme == 1) draco::SetSymbolEncodingMethod(&opt, draco::SYMBOL_CODING_TAGGED);
      if (scheme == 2) draco::SetSymbolEncodingMethod(&opt, draco::SYMBOL_CODING_RAW);
      draco::SetSymbolEncodingCompressionLevel(&opt, (op.c >> 2) % 11);
      // |num_values| counts every component value.
      return draco::EncodeSymbols(v.data(), static_cast<int>(v.size()),
                                  op.b < 1 ? 1 : op.b, &opt, buf);
    }
    default:
      return true;
  }
}

Written WritePlan(const PPlan &p) {
  Written w;
  draco::EncoderBuffer buf;
  // The writer is contained as well (memory budget): a writer that needs
  // gigabytes for a few values fails the op instead of taking the machine down.
  AllocConfig ac;
  ac.active = true;
  ac.budget = 256ull << 20;
  for (const POp &op : p.ops) {
    int ok = 0;
    AllocBegin(ac);
    try {
      ok = WriteOp(op, &buf) ? 1 : 0;
    } catch (const std::exception &) {
      ok = -1;  // the writer threw: reported by the caller
    }
    AllocEnd(false);
    w.ok.push_back(ok);
    w.end.push_back(buf.size());
    if (ok < 0) {
      // The buffer may hold a partial op: nothing after it can be read back.
      for (size_t k = w.ok.size(); k < p.ops.size(); ++k) {
        w.ok.push_back(0);
        w.end.push_back(buf.size());
      }
      break;
    }
  }
  w.bytes.assign(reinterpret_cast<const uint8_t *>(buf.data()),
                 reinterpret_cast<const uint8_t *>(buf.data()) + buf.size());
  return w;
}

// ------------------------------------------------------------- reader -----
struct ReadOutcome {
  int started = 0;   // the read call(s) returned success
  int exact = 0;     // values equal to the model
  int64_t pos = -1;  // reader position after the op
};

template <class DecT>
void ReadBitBlock(const POp &op, bool single_bit_api, int extra,
                  draco::DecoderBuffer *db, ReadOutcome *r) {
  DecT dec;
  if (!dec.StartDecoding(db)) return;
  r->started = 1;
  bool exact = true;
  for (const BitItem &it : BitItems(op, false, single_bit_api)) {
    if (it.nbits == 0) {
      if (dec.DecodeNextBit() != (it.v != 0)) exact = false;
    } else {
      uint32_t v = 0;
      dec.DecodeLeastSignificantBits32(it.nbits, &v);
      if (v != it.v) exact = false;
    }
  }
  // Reads past the written data: any value, no memory outside the buffer.
  uint32_t sink = 0;
  for (int i = 0; i < extra; ++i) {
    if (i % 3 == 0) {
      sink += dec.DecodeNextBit();
    } else {
      uint32_t v = 0;
      dec.DecodeLeastSignificantBits32(1 + (i * 7) % 32, &v);
      sink += v;
    }
  }
  if (sink == 0x7fffffff) exact = exact && true;
  dec.EndDecoding();
  r->exact = exact;
}

template <typename T>
bool ReadScalar(uint64_t bits, draco::DecoderBuffer *db, ReadOutcome *r) {
  T v;
  if (!db->Decode(&v)) return false;
  r->started = 1;
  T want = FromBits<T>(bits);
  r->exact = memcmp(&v, &want, sizeof(T)) == 0;
  return true;
}

template <typename T>
bool ReadVarint(uint64_t bits, draco::DecoderBuffer *db, ReadOutcome *r) {
  T v;
  if (!draco::DecodeVarint(&v, db)) return false;
  r->started = 1;
  r->exact = v == FromBits<T>(bits);
  return true;
}

void ReadOp(const POp &op, int extra, draco::DecoderBuffer *db, ReadOutcome *r) {
  switch (op.k) {
    case P_SCALAR:
      switch (op.b) {
        case 0:
          ReadScalar<uint8_t>(op.a, db, r);
          break;
        case 1:
          ReadScalar<int8_t>(op.a, db, r);
          break;
        case 2:
          ReadScalar<uint16_t>(op.a, db, r);
          break;
        case 3:
          ReadScalar<int16_t>(op.a, db, r);
          break;
        case 4:
          ReadScalar<uint32_t>(op.a, db, r);
          break;
        case 5:
          ReadScalar<int32_t>(op.a, db, r);
          break;
        case 6:
          ReadScalar<uint64_t>(op.a, db, r);
          break;
        case 7:
          ReadScalar<int64_t>(op.a, db, r);
          break;
        default:
          ReadScalar<float>(op.a, db, r);
          break;
      }
      break;
    case P_BYTES: {
      std::vector<uint8_t> d(static_cast<size_t>(op.a) + 1);
      if (!db->Decode(d.data(), static_cast<size_t>(op.a))) break;
      r->started = 1;
      uint64_t s = op.seed;
      bool exact = true;
      for (size_t i = 0; i < op.a; ++i)
        if (d[i] != static_cast<uint8_t>(splitmix64(&s))) exact = false;
      r->exact = exact;
      break;
    }
    case P_VARINT:
      switch (op.b) {
        case 0:
          ReadVarint<uint8_t>(op.a, db, r);
          break;
        case 1:
          ReadVarint<int8_t>(op.a, db, r);
          break;
        case 2:
          ReadVarint<uint16_t>(op.a, db, r);
          break;
        case 3:
          ReadVarint<int16_t>(op.a, db, r);
          break;
        case 4:
          ReadVarint<uint32_t>(op.a, db, r);
          break;
        case 5:
          ReadVarint<int32_t>(op.a, db, r);
          break;
        case 6:
          ReadVarint<uint64_t>(op.a, db, r);
          break;
        default:
          ReadVarint<int64_t>(op.a, db, r);
          break;
      }
      break;
    case P_BITREGION: {
      std::vector<BitItem> items = RegionItems(op);
      int64_t bits = 0;
      for (const BitItem &it : items) bits += it.nbits;
      if (bits == 0) {
        r->started = 1;
        r->exact = 1;
        break;
      }
      uint64_t size = 0;
      if (!db->StartBitDecoding(op.b != 0, &size)) break;
      bool ok = true, exact = true;
      for (const BitItem &it : items) {
        uint32_t v = 0;
        if (!db->DecodeLeastSignificantBits32(it.nbits, &v)) ok = false;
        if (v != it.v) exact = false;
      }
      if (op.b != 0 && size != static_cast<uint64_t>((bits + 7) / 8)) exact = false;
      // Reads past the region: the bit decoder yields zeros past its end.
      for (int i = 0; i < extra; ++i) {
        uint32_t v = 0;
        db->DecodeLeastSignificantBits32(1 + (i * 5) % 32, &v);
      }
      db->EndBitDecoding();
      r->started = ok;
      r->exact = exact && extra == 0 ? exact : exact;
      break;
    }
    case P_RANS:
      ReadBitBlock<draco::RAnsBitDecoder>(op, true, extra, db, r);
      break;
    case P_ADAPTIVE:
      ReadBitBlock<draco::AdaptiveRAnsBitDecoder>(op, true, extra, db, r);
      break;
    case P_DIRECT:
      ReadBitBlock<draco::DirectBitDecoder>(op, true, extra, db, r);
      break;
    case P_FOLDED:
      ReadBitBlock<draco::FoldedBit32Decoder<draco::RAnsBitDecoder>>(op, true, extra, db, r);
      break;
    case P_SYMBOLBITS:
      if (op.a == 0) {
        r->started = 1;
        r->exact = 1;
        break;
      }
      ReadBitBlock<draco::SymbolBitDecoder>(op, true, extra, db, r);
      break;
    case P_SYMBOLS: {
      std::vector<uint32_t> want = SymbolValues(op);
      std::vector<uint32_t> got(want.size() + 1, 0xdeadbeef);
      if (!draco::DecodeSymbols(static_cast<uint32_t>(want.size()),
                                op.b < 1 ? 1 : op.b, db, got.data()))
        break;
      r->started = 1;
      got.resize(want.size());
      r->exact = got == want;
      break;
    }
    default:
      break;
  }
  r->pos = db->decoded_size();
}

struct PFinding {
  std::string cls, sig, detail;
  PFault fault;
};

Medium g_pmedium;

// One reader pass. |t| = number of bytes the reader is given. |extra| reads are
// issued past the written data inside every block. |check| selects the oracle:
// 0 = exact round trip (fault-free), 1 = prefix durability under EOF at t,
// 2 = memory safety only.
void ReaderPass(const PPlan &p, const Written &w, const std::vector<uint8_t> &bytes,
                size_t t, int extra, int check, const PFault &fault,
                std::vector<PFinding> *out, uint64_t *ops_read) {
  const char *data = g_pmedium.Place(bytes.data(), t, false);
  draco::DecoderBuffer db;
  db.Init(data, t, draco::kDracoMeshBitstreamVersion);
  AllocConfig ac;
  ac.active = true;
  ac.budget = 8ull << 20;
  bool poisoned = false;  // an earlier op failed: positions are unspecified
  for (size_t k = 0; k < p.ops.size(); ++k) {
    if (!w.ok[k]) continue;  // the writer refused this op: nothing to read
    ReadOutcome r;
    AllocBegin(ac);
    try {
      ReadOp(p.ops[k], extra, &db, &r);
    } catch (const std::bad_alloc &) {
      r.started = 0;
    } catch (const std::length_error &) {
      r.started = 0;
    }
    AllocEnd(false);
    ++*ops_read;
    auto add = [&](const char *cls, const std::string &detail) {
      PFinding f;
      f.cls = cls;
      f.sig = std::string(cls) + "|" + kPNames[p.ops[k].k];
      f.detail = detail + " (op " + std::to_string(k) + " " + kPNames[p.ops[k].k] + ")";
      f.fault = fault;
      out->push_back(f);
    };
    if (check == 2 || poisoned) {
      if (!r.started) poisoned = true;
      continue;
    }
    const bool complete = w.end[k] <= t;  // the op's bytes are all present
    if (!complete) {
      poisoned = true;
      continue;
    }
    if (!r.started) {
      add(check == 0 ? "roundtrip_failed" : "prefix_durability",
          "reader failed on an op whose bytes are completely present");
      poisoned = true;
      continue;
    }
    if (!r.exact) {
      add(check == 0 ? "roundtrip_mismatch" : "prefix_durability",
          "reader returned values different from what was written");
      poisoned = true;
      continue;
    }
    if (r.pos != static_cast<int64_t>(w.end[k])) {
      // Reads issued past the written data of a region that is not
      // self-delimiting legitimately move the reader: no verdict afterwards.
      if (extra == 0)
        add("position_mismatch", "reader position " + std::to_string(r.pos) +
                                     " != writer position " + std::to_string(w.end[k]));
      poisoned = true;
    }
  }
  (void)extra;
}

// Runs the plan under its fault(s). Returns event-log hash.
uint64_t RunPrimPlan(const PPlan &p, std::vector<PFinding> *out, uint64_t *ops_read,
                     uint64_t *eof_placements, std::map<std::string, uint64_t> *fk) {
  Written w = WritePlan(p);
  Hasher h;
  h.Bytes(w.bytes.data(), w.bytes.size());
  for (int ok : w.ok) h.U64(ok);
  const size_t len = w.bytes.size();
  PFault none;
  none.kind = 1;
  const size_t before = out->size();
  for (size_t k = 0; k < w.ok.size(); ++k) {
    if (w.ok[k] >= 0) continue;
    PFinding f;
    f.cls = "writer_failed";
    f.sig = std::string("writer_failed|") + kPNames[p.ops[k].k];
    f.detail = "the writer threw (allocation beyond 256 MiB) on op " + std::to_string(k);
    f.fault = none;
    out->push_back(f);
    w.ok[k] = 0;
  }
  if (p.fault.kind == 0 || p.fault.kind == 1) {
    ReaderPass(p, w, w.bytes, len, 0, 0, none, out, ops_read);
    ++(*fk)["none"];
  }
  if (p.fault.kind == 0 || p.fault.kind == 2) {
    // EOF at every byte (long streams: every op boundary +-1 and a stride).
    std::vector<size_t> ts;
    if (p.fault.kind == 2) {
      ts.push_back(static_cast<size_t>(p.fault.t) % (len + 1));
    } else if (len <= 1500) {
      for (size_t t = 0; t < len; ++t) ts.push_back(t);
    } else {
      for (size_t t = 0; t < len; t += 1 + len / 700) ts.push_back(t);
      for (size_t e : w.end)
        for (int d = -1; d <= 1; ++d)
          if (e + d < len) ts.push_back(e + d);
    }
    for (size_t t : ts) {
      PFault f;
      f.kind = 2;
      f.t = static_cast<int64_t>(t);
      ReaderPass(p, w, w.bytes, t, 0, 1, f, out, ops_read);
      ++*eof_placements;
    }
    (*fk)["trunc"] += ts.size();
  }
  if (p.fault.kind == 0 || p.fault.kind == 3) {
    PFault f;
    f.kind = 3;
    for (int extra : {1, 40}) {
      f.t = extra;
      if (p.fault.kind == 3 && p.fault.t != extra) continue;
      ReaderPass(p, w, w.bytes, len, extra, 1, f, out, ops_read);
      ++(*fk)["extra_reads"];
    }
  }
  if ((p.fault.kind == 0 || p.fault.kind == 4) && len > 0) {
    Rng r(mix64(p.ops.empty() ? 1 : p.ops[0].seed, len));
    const int n = p.fault.kind == 4 ? 1 : 24;
    for (int i = 0; i < n; ++i) {
      PFault f;
      f.kind = 4;
      f.t = p.fault.kind == 4 ? p.fault.t : static_cast<int64_t>(r.Below(len * 8));
      std::vector<uint8_t> b = w.bytes;
      const size_t bit = static_cast<size_t>(f.t) % (len * 8);
      b[bit / 8] ^= static_cast<uint8_t>(1u << (bit % 8));
      ReaderPass(p, w, b, len, i % 2 ? 3 : 0, 2, f, out, ops_read);
      ++(*fk)["flipbit"];
    }
  }
  h.U64(out->size() - before);
  for (size_t i = before; i < out->size(); ++i) h.Str((*out)[i].sig);
  return h.Digest();
}

uint64_t BoundaryValue(Rng *r, int bits) {
  const uint64_t mask = bits >= 64 ? ~0ull : ((1ull << bits) - 1);
  switch (r->Below(8)) {
    case 0:
      return 0;
    case 1:
      return mask;
    case 2:
      return mask >> 1;          // max signed
    case 3:
      return (mask >> 1) + 1;    // min signed
    case 4:
      return (1ull << r->Below(bits)) & mask;
    case 5:
      return ((1ull << r->Below(bits)) - 1) & mask;
    default:
      return r->Next() & mask;
  }
}

PPlan GeneratePrimPlan(uint64_t seed, bool big) {
  PPlan p;
  Rng r(seed);
  const int n = static_cast<int>(r.Range(1, big ? 40 : 14));
  static const int bits_of_type[9] = {8, 8, 16, 16, 32, 32, 64, 64, 32};
  for (int i = 0; i < n; ++i) {
    POp op;
    Rng ro = r.Fork(i);
    op.seed = ro.Next() >> 2;
    const uint64_t pick = ro.Below(100);
    if (pick < 14) {
      op.k = P_SCALAR;
      op.b = static_cast<int>(ro.Below(9));
      op.a = BoundaryValue(&ro, bits_of_type[op.b]);
    } else if (pick < 20) {
      op.k = P_BYTES;
      op.a = ro.Below(big ? 300 : 40);
    } else if (pick < 38) {
      op.k = P_VARINT;
      op.b = static_cast<int>(ro.Below(8));
      op.a = BoundaryValue(&ro, bits_of_type[op.b]);
    } else if (pick < 52) {
      op.k = P_BITREGION;
      // Region sizes around 2^7 and 2^14 bytes change the varint length of
      // the back-patched size.
      const uint64_t m = ro.Below(10);
      op.a = m < 6 ? ro.Below(40) : (m < 8 ? 30 + ro.Below(12) : (big ? 3900 + ro.Below(400) : ro.Below(80)));
      op.b = static_cast<int>(ro.Below(2));
      op.c = ro.Chance(1, 2) ? 1 : 2 + static_cast<int>(ro.Below(32));
      op.d = 0;
      if (ro.Fork("size-boundary").Chance(1, 5))
        op.d = 1 + static_cast<int>(ro.Fork("size-boundary-k").Below(big ? 8 : 3));
      // BitItems for regions: widths (mode 1 random, else fixed = c-1).
      op.b = op.b;
    } else if (pick < 90) {
      op.k = P_RANS + static_cast<int>(ro.Below(5));
      const uint64_t m = ro.Below(8);
      op.a = m == 0 ? 0 : (m < 5 ? ro.Below(64) : ro.Below(big || m == 7 ? 3000 : 400));
      static const int biases[] = {0, 1, 8, 64, 128, 192, 248, 255, 256, 257, 258};
      op.b = biases[ro.Below(11)];
      op.c = static_cast<int>(ro.Below(3));  // 0 bits, 1 mixed, 2 -> width 1.. fixed below
      if (op.c == 2) op.c = 2 + static_cast<int>(ro.Below(32));
      if (op.k == P_SYMBOLBITS && op.a > 200) op.a = 200;
    } else {
      op.k = P_SYMBOLS;
      op.a = 1 + ro.Below(big ? 600 : 60);
      op.b = static_cast<int>(ro.Range(1, 4));
      op.c = static_cast<int>(ro.Below(3)) | (static_cast<int>(ro.Below(11)) << 2);
      op.d = static_cast<int>(ro.Range(1, 18));
      if (ro.Fork("shape").Chance(1, 4)) {
        op.a = 1;
        op.b = 1;
        op.d = 100 + static_cast<int>(ro.Fork("shape-j").Below(8));
        // Mostly the raw scheme (the only one whose tables get past 12 bits).
        if (ro.Fork("shape-raw").Chance(2, 3)) op.c = (op.c & ~3) | 2;
      }
    }
    if (op.k == P_BITREGION) {
      // Region items never use the single-bit API: mode 0 is meaningless.
      if (op.c == 0) op.c = 1;
      op.b = op.b ? 1 : 0;
      // bias reused as 128 (b is the with-size flag): see BitItems.
    }
    p.ops.push_back(op);
  }
  return p;
}

// Plain input enumeration (labelled as such): exhaustive 8/16-bit varints and
// zig-zag, every bit width of every bit coder with boundary values.
void ExhaustivePart(std::vector<PFinding> *out, uint64_t *count) {
  auto fail = [&](const std::string &what) {
    PFinding f;
    f.cls = "roundtrip_mismatch";
    f.sig = "roundtrip_mismatch|exhaustive|" + what;
    f.detail = what;
    f.fault.kind = 1;
    out->push_back(f);
  };
  for (uint32_t v = 0; v < 65536; ++v) {
    {
      draco::EncoderBuffer eb;
      draco::EncodeVarint(static_cast<uint16_t>(v), &eb);
      draco::EncodeVarint(static_cast<int16_t>(v), &eb);
      if (v < 256) {
        draco::EncodeVarint(static_cast<uint8_t>(v), &eb);
        draco::EncodeVarint(static_cast<int8_t>(v), &eb);
      }
      draco::DecoderBuffer db;
      db.Init(eb.data(), eb.size());
      uint16_t a;
      int16_t b;
      if (!draco::DecodeVarint(&a, &db) || a != static_cast<uint16_t>(v)) fail("varint_u16");
      if (!draco::DecodeVarint(&b, &db) || b != static_cast<int16_t>(v)) fail("varint_i16");
      if (v < 256) {
        uint8_t c;
        int8_t d;
        if (!draco::DecodeVarint(&c, &db) || c != static_cast<uint8_t>(v)) fail("varint_u8");
        if (!draco::DecodeVarint(&d, &db) || d != static_cast<int8_t>(v)) fail("varint_i8");
      }
      if (db.remaining_size() != 0) fail("varint_self_delimiting");
      *count += 2 + (v < 256 ? 2 : 0);
    }
    const int16_t s = static_cast<int16_t>(v);
    if (draco::ConvertSymbolToSignedInt(draco::ConvertSignedIntToSymbol(s)) != s)
      fail("zigzag_i16");
    const int32_t s32 = static_cast<int32_t>(v * 65537u);
    if (draco::ConvertSymbolToSignedInt(draco::ConvertSignedIntToSymbol(s32)) != s32)
      fail("zigzag_i32");
    *count += 2;
  }
  Rng r(12345);
  for (int i = 0; i < 20000; ++i) {
    const uint64_t v = BoundaryValue(&r, 64);
    draco::EncoderBuffer eb;
    draco::EncodeVarint(static_cast<uint64_t>(v), &eb);
    draco::EncodeVarint(static_cast<int64_t>(v), &eb);
    draco::EncodeVarint(static_cast<uint32_t>(v), &eb);
    draco::EncodeVarint(static_cast<int32_t>(v), &eb);
    draco::DecoderBuffer db;
    db.Init(eb.data(), eb.size());
    uint64_t a;
    int64_t b;
    uint32_t c;
    int32_t d;
    if (!draco::DecodeVarint(&a, &db) || a != v) fail("varint_u64");
    if (!draco::DecodeVarint(&b, &db) || b != static_cast<int64_t>(v)) fail("varint_i64");
    if (!draco::DecodeVarint(&c, &db) || c != static_cast<uint32_t>(v)) fail("varint_u32");
    if (!draco::DecodeVarint(&d, &db) || d != static_cast<int32_t>(v)) fail("varint_i32");
    if (db.remaining_size() != 0) fail("varint_self_delimiting");
    *count += 4;
  }
}

Json PFindingsToJson(const std::vector<PFinding> &fs, const PPlan &p, uint64_t idx) {
  Json arr = Json::Array();
  std::map<std::string, int> seen;
  for (const PFinding &f : fs) {
    if (seen[f.sig]++) continue;
    Json c = Json::Object();
    c["t"] = "cand";
    c["idx"] = static_cast<unsigned long long>(idx);
    c["prop"] = "C17";
    c["class"] = f.cls;
    c["sig"] = f.sig;
    c["detail"] = f.detail;
    PPlan q = p;
    q.fault = f.fault;
    c["plan"] = q.ToJson();
    arr.push(c);
  }
  return arr;
}

}  // namespace
}  // namespace sim

int PrimMain(const std::map<std::string, std::string> &a, const std::string &cmd) {
  using namespace sim;
  auto get = [&](const char *k, const char *def) {
    auto it = a.find(k);
    return it == a.end() ? std::string(def) : it->second;
  };
  const std::string tier = get("tier", "quick");
  const uint64_t seed = strtoull(get("seed", "1").c_str(), nullptr, 0);
  const std::string log_dir = get("logdir", ".");
  const int nworkers = atoi(get("workers", "16").c_str());
  const uint64_t sample_mod = strtoull(get("sample-mod", "1").c_str(), nullptr, 0);
  const bool hashlog = get("hashlog", "0") != "0";
  uint64_t total = strtoull(get("max-runs", "0").c_str(), nullptr, 0);
  if (!total) total = tier == "thorough" ? 150000 : (tier == "smoke" ? 300 : 2500);
  const bool big = tier == "thorough";
  auto plan_for = [&](uint64_t idx) {
    return GeneratePrimPlan(mix64(mix64(seed, label_hash("prim-run")), idx),
                            big && (idx % 4 == 0));
  };

  if (cmd == "batch") {
    Json cands = Json::Array();
    Json samples = Json::Array();
    uint64_t runs = 0, ops_read = 0, eofs = 0, mixed = 0, exhaustive = 0;
    std::map<std::string, uint64_t> fk, opk, sigcount;
    static uint64_t w_runs, w_ops, w_eofs, w_mixed, w_exh;
    static std::map<std::string, uint64_t> w_fk, w_opk;
    static std::map<std::string, int> w_emitted;
    PoolCallbacks cb;
    cb.init = [&](int) {
      w_runs = w_ops = w_eofs = w_mixed = w_exh = 0;
      std::vector<PFinding> f;
      uint64_t o = 0, e = 0;
      std::map<std::string, uint64_t> k;
      // Warm-up in the fault-free configuration only.
      PPlan wp = GeneratePrimPlan(mix64(seed, 0xabc), false);
      wp.fault.kind = 1;
      RunPrimPlan(wp, &f, &o, &e, &k);
    };
    cb.run = [&](uint64_t idx, std::string *out) {
      if (sample_mod > 1 && idx % sample_mod != 0) return;
      std::vector<PFinding> fs;
      PPlan p;
      uint64_t h;
      if (idx == 0) {
        p.exhaustive = true;
        p.fault.kind = 1;
        ExhaustivePart(&fs, &w_exh);
        Hasher hh;
        hh.U64(fs.size());
        h = hh.Digest();
      } else {
        p = plan_for(idx);
        h = RunPrimPlan(p, &fs, &w_ops, &w_eofs, &w_fk);
        std::map<int, int> kinds;
        for (const POp &op : p.ops) {
          ++kinds[op.k];
          ++w_opk[kPNames[op.k]];
        }
        if (kinds.size() >= 2) ++w_mixed;
      }
      ++w_runs;
      if (hashlog) PoolLogRunHash(idx, h);
      if (!fs.empty()) {
        Json arr = PFindingsToJson(fs, p, idx);
        for (size_t i = 0; i < arr.size(); ++i) {
          if (w_emitted[arr.at(i).get("sig").Str()]++ >= 3) continue;
          *out += arr.at(i).Dump();
          *out += '\n';
        }
      }
      if (idx >= 1 && idx <= 3) {
        Json s = Json::Object();
        s["t"] = "sample";
        s["idx"] = static_cast<unsigned long long>(idx);
        s["plan"] = p.ToJson();
        Written w = WritePlan(p);
        s["stream_len"] = static_cast<unsigned long long>(w.bytes.size());
        *out += s.Dump();
        *out += '\n';
      }
    };
    cb.finish = [&](int, std::string *out) {
      Json s = Json::Object();
      s["t"] = "stats";
      s["runs"] = static_cast<unsigned long long>(w_runs);
      s["ops"] = static_cast<unsigned long long>(w_ops);
      s["eofs"] = static_cast<unsigned long long>(w_eofs);
      s["mixed"] = static_cast<unsigned long long>(w_mixed);
      s["exh"] = static_cast<unsigned long long>(w_exh);
      Json f = Json::Object();
      for (auto &kv : w_fk) f[kv.first] = static_cast<unsigned long long>(kv.second);
      s["fk"] = f;
      Json o = Json::Object();
      for (auto &kv : w_opk) o[kv.first] = static_cast<unsigned long long>(kv.second);
      s["opk"] = o;
      *out += s.Dump();
      *out += '\n';
    };
    cb.on_line = [&](const std::string &line) {
      Json j;
      if (!Json::Parse(line, &j)) return;
      const std::string t = j.get("t").Str();
      if (t == "cand") {
        ++sigcount[j.get("sig").Str()];
        if (cands.size() < 200) cands.push(j);
      } else if (t == "sample") {
        samples.push(j);
      } else if (t == "stats") {
        runs += j.get("runs").U64();
        ops_read += j.get("ops").U64();
        eofs += j.get("eofs").U64();
        mixed += j.get("mixed").U64();
        exhaustive += j.get("exh").U64();
        for (auto &kv : j.get("fk").items()) fk[kv.first] += kv.second.U64();
        for (auto &kv : j.get("opk").items()) opk[kv.first] += kv.second.U64();
      }
    };
    uint64_t wallclock = 0;
    cb.on_death = [&](const PoolDeath &d) {
      std::string sig, excerpt;
      const std::string cls = ClassifyDeath(d, &sig, &excerpt);
      if (cls == "wallclock") {
        ++wallclock;
        return;
      }
      Json c = Json::Object();
      c["t"] = d.in_run ? "cand" : "machinery";
      c["idx"] = static_cast<unsigned long long>(d.idx);
      c["prop"] = "C17";
      c["class"] = "crash";
      c["sig"] = sig;
      c["detail"] = "worker died while reading: " + cls;
      c["log"] = excerpt;
      if (d.in_run && d.idx > 0) c["plan"] = plan_for(d.idx).ToJson();
      ++sigcount[sig];
      cands.push(c);
    };
    PoolOptions po;
    po.workers = nworkers;
    po.begin = 0;
    po.end = total;
    po.budget_s = atof(get("budget", "0").c_str());
    po.log_dir = log_dir;
    po.hashlog = hashlog;
    po.permute = po.budget_s > 0;
    PoolResult pr = RunPool(po, cb);
    Json sum = Json::Object();
    sum["engine"] = "prim";
    sum["tier"] = tier;
    sum["seed"] = static_cast<unsigned long long>(seed);
    sum["total_planned"] = static_cast<unsigned long long>(total);
    sum["runs"] = static_cast<unsigned long long>(runs);
    sum["calls"] = static_cast<unsigned long long>(ops_read);
    sum["eof_placements"] = static_cast<unsigned long long>(eofs);
    sum["distinct_nontrivial"] = static_cast<unsigned long long>(mixed);
    sum["exhaustive_part"] = static_cast<unsigned long long>(exhaustive);
    sum["undecided_wallclock"] = static_cast<unsigned long long>(wallclock);
    sum["wall_s"] = pr.wall_s;
    sum["deaths"] = static_cast<unsigned long long>(pr.deaths);
    Json f = Json::Object();
    for (auto &kv : fk) f[kv.first] = static_cast<unsigned long long>(kv.second);
    sum["fault_kinds"] = f;
    Json o = Json::Object();
    for (auto &kv : opk) o[kv.first] = static_cast<unsigned long long>(kv.second);
    sum["ops"] = o;
    Json sc = Json::Object();
    for (auto &kv : sigcount) sc[kv.first] = static_cast<unsigned long long>(kv.second);
    sum["sig_counts"] = sc;
    sum["candidates"] = cands;
    sum["samples"] = samples;
    WriteFile(get("out", "/dev/stdout"), sum.Dump());
    return 0;
  }
  if (cmd == "exec") {
    std::string text;
    if (!ReadFile(get("plans", ""), &text)) return 2;
    std::vector<Json> plans;
    size_t pos = 0;
    while (pos < text.size()) {
      size_t e = text.find('\n', pos);
      if (e == std::string::npos) e = text.size();
      std::string line = text.substr(pos, e - pos);
      pos = e + 1;
      if (line.empty()) continue;
      Json j;
      if (!Json::Parse(line, &j)) j = Json::Object();
      plans.push_back(j);
    }
    std::map<uint64_t, std::string> results;
    PoolCallbacks cb;
    cb.run = [&](uint64_t n, std::string *out) {
      PPlan p = PPlan::FromJson(plans[n]);
      std::vector<PFinding> fs;
      uint64_t o = 0, e = 0;
      std::map<std::string, uint64_t> k;
      uint64_t h;
      if (p.exhaustive) {
        ExhaustivePart(&fs, &o);
        Hasher hh;
        hh.U64(fs.size());
        h = hh.Digest();
      } else {
        h = RunPrimPlan(p, &fs, &o, &e, &k);
      }
      Json res = Json::Object();
      res["t"] = "result";
      res["n"] = static_cast<unsigned long long>(n);
      Json cs = PFindingsToJson(fs, p, n);
      for (size_t i = 0; i < cs.size(); ++i) cs.at(i).erase("plan");
      res["cands"] = cs;
      res["results"] = Json::Array();
      res["hash"] = Hex64(h);
      *out += res.Dump();
      *out += '\n';
    };
    cb.on_line = [&](const std::string &line) {
      Json j;
      if (Json::Parse(line, &j)) results[j.get("n").U64()] = line;
    };
    cb.on_death = [&](const PoolDeath &d) {
      std::string sig, excerpt;
      const std::string cls = ClassifyDeath(d, &sig, &excerpt);
      Json res = Json::Object();
      res["t"] = "result";
      res["n"] = static_cast<unsigned long long>(d.idx);
      Json cs = Json::Array();
      if (cls != "wallclock") {
        Json c = Json::Object();
        c["prop"] = "C17";
        c["class"] = "crash";
        c["sig"] = sig;
        c["detail"] = cls;
        c["log"] = excerpt;
        cs.push(c);
      }
      res["cands"] = cs;
      res["results"] = Json::Array();
      res["hash"] = "crash:" + sig;
      results[d.idx] = res.Dump();
    };
    PoolOptions po;
    po.workers = nworkers;
    po.begin = 0;
    po.end = plans.size();
    po.log_dir = log_dir;
    RunPool(po, cb);
    FILE *out = fopen(get("out", "/dev/stdout").c_str(), "w");
    if (!out) return 2;
    for (uint64_t n = 0; n < plans.size(); ++n) {
      auto it = results.find(n);
      if (it == results.end()) {
        fprintf(out, "{\"t\":\"result\",\"n\":%llu,\"cands\":[],\"results\":[]}\n",
                static_cast<unsigned long long>(n));
      } else {
        fprintf(out, "%s\n", it->second.c_str());
      }
    }
    fclose(out);
    return 0;
  }
  return 2;
}
