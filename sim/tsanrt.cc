#include "tsanrt.h"

#include <pthread.h>
#include <stdio.h>
#include <stdlib.h>
#include <string.h>
#include <unistd.h>

#include <algorithm>

#include "common.h"

extern "C" {
extern char __data_start;
extern char _end;
}

namespace sim {

const char *kYieldNames[Y_NUM] = {"alloc",  "free",  "static_read", "static_write",
                                  "atomic", "guard", "mutex",       "func_entry"};

namespace {

constexpr int kMaxTasks = 16;

TsanYieldFn g_yield = nullptr;
TsanTaskFn g_task = nullptr;
void (*g_yield_to)(int task) = nullptr;

uintptr_t g_lo = 0, g_span = 0;
bool g_logging = false;
int g_num_tasks = 0;

struct Sym {
  uintptr_t addr;
  uintptr_t size;
  char name[120];
};
Sym *g_syms = nullptr;
size_t g_nsyms = 0;

uint32_t g_vc[kMaxTasks][kMaxTasks];

struct Shadow {
  uintptr_t word;  // 0 = empty
  int w_task;
  uint32_t w_clock;
  uintptr_t w_pc;
  uint32_t r_clock[kMaxTasks];
  uintptr_t r_pc[kMaxTasks];
};
constexpr size_t kShadowCap = 1 << 14;
Shadow *g_shadow = nullptr;

struct SyncObj {
  uintptr_t addr;
  uint32_t vc[kMaxTasks];
  int owner;      // guard being initialised / mutex held by this task, else -1
};
constexpr size_t kSyncCap = 1 << 12;
SyncObj *g_sync = nullptr;

constexpr size_t kMaxRaces = 64;
struct RawRace {
  uintptr_t addr;
  int ta, tb;
  bool wa, wb;
  uintptr_t pa, pb;
};
RawRace g_races[kMaxRaces];
size_t g_nraces = 0;

uint64_t g_static_accesses = 0;
// Total instrumented accesses: summed from thread-local counters.
uint64_t g_total_accesses = 0;
thread_local uint64_t tl_accesses = 0;
thread_local uint64_t tl_func_count = 0;
thread_local uint64_t tl_func_next = 0;
thread_local uint64_t tl_func_rng = 0;
thread_local uint64_t tl_acc_next = 0;
thread_local uint64_t tl_acc_rng = 0;
uint64_t g_func_interval = 0, g_func_seed = 0;
uint64_t g_acc_interval = 0;

void InitStaticRange() {
  if (g_span) return;
  g_lo = reinterpret_cast<uintptr_t>(&__data_start);
  g_span = reinterpret_cast<uintptr_t>(&_end) - g_lo;
  g_shadow = static_cast<Shadow *>(calloc(kShadowCap, sizeof(Shadow)));
  g_sync = static_cast<SyncObj *>(calloc(kSyncCap, sizeof(SyncObj)));
  // Symbol table written next to the executable at build time.
  char exe[4096];
  ssize_t n = readlink("/proc/self/exe", exe, sizeof(exe) - 16);
  if (n <= 0) return;
  exe[n] = 0;
  strcat(exe, ".statics");
  FILE *f = fopen(exe, "r");
  if (!f) return;
  size_t cap = 4096;
  g_syms = static_cast<Sym *>(calloc(cap, sizeof(Sym)));
  char line[512];
  while (fgets(line, sizeof(line), f)) {
    unsigned long a = 0, s = 0;
    char name[400];
    if (sscanf(line, "%lx %lx %399s", &a, &s, name) != 3) continue;
    if (g_nsyms == cap) {
      cap *= 2;
      g_syms = static_cast<Sym *>(realloc(g_syms, cap * sizeof(Sym)));
    }
    g_syms[g_nsyms].addr = a;
    g_syms[g_nsyms].size = s ? s : 1;
    strncpy(g_syms[g_nsyms].name, name, sizeof(g_syms[g_nsyms].name) - 1);
    g_syms[g_nsyms].name[sizeof(g_syms[g_nsyms].name) - 1] = 0;
    ++g_nsyms;
  }
  fclose(f);
}

Shadow *FindShadow(uintptr_t word) {
  size_t h = (word * 0x9E3779B97F4A7C15ull) >> 50;
  h &= kShadowCap - 1;
  for (size_t i = 0; i < kShadowCap; ++i) {
    Shadow &s = g_shadow[(h + i) & (kShadowCap - 1)];
    if (s.word == word) return &s;
    if (s.word == 0) {
      s.word = word;
      s.w_task = -1;
      return &s;
    }
  }
  return nullptr;
}

SyncObj *FindSync(uintptr_t addr) {
  size_t h = (addr * 0x9E3779B97F4A7C15ull) >> 52;
  h &= kSyncCap - 1;
  for (size_t i = 0; i < kSyncCap; ++i) {
    SyncObj &s = g_sync[(h + i) & (kSyncCap - 1)];
    if (s.addr == addr) return &s;
    if (s.addr == 0) {
      s.addr = addr;
      s.owner = -1;
      return &s;
    }
  }
  return nullptr;
}

void ReportRace(uintptr_t addr, int ta, bool wa, uintptr_t pa, int tb, bool wb,
                uintptr_t pb) {
  for (size_t i = 0; i < g_nraces; ++i)
    if (g_races[i].addr == addr && g_races[i].pa == pa && g_races[i].pb == pb) return;
  if (g_nraces < kMaxRaces) g_races[g_nraces++] = RawRace{addr, ta, tb, wa, wb, pa, pb};
}

void RecordAccess(int t, uintptr_t addr, size_t size, bool is_write, uintptr_t pc) {
  ++g_static_accesses;
  const uintptr_t first = addr & ~uintptr_t(7);
  const uintptr_t last = (addr + (size ? size - 1 : 0)) & ~uintptr_t(7);
  for (uintptr_t w = first; w <= last; w += 8) {
    Shadow *s = FindShadow(w);
    if (!s) return;
    // A previous write by another task that does not happen-before us.
    if (s->w_task >= 0 && s->w_task != t && g_vc[t][s->w_task] < s->w_clock)
      ReportRace(w, s->w_task, true, s->w_pc, t, is_write, pc);
    if (is_write) {
      for (int r = 0; r < g_num_tasks; ++r) {
        if (r == t || s->r_clock[r] == 0) continue;
        if (g_vc[t][r] < s->r_clock[r]) ReportRace(w, r, false, s->r_pc[r], t, true, pc);
      }
      s->w_task = t;
      s->w_clock = g_vc[t][t];
      s->w_pc = pc;
    } else {
      s->r_clock[t] = g_vc[t][t];
      s->r_pc[t] = pc;
    }
    if (last - first > 4096) break;  // huge range: first word is enough
  }
}

inline void OnAccess(const void *p, size_t size, bool is_write, uintptr_t pc) {
  ++tl_accesses;
  const uintptr_t a = reinterpret_cast<uintptr_t>(p);
  if (a - g_lo >= g_span) {
    // Not static memory: never a race candidate, but (sampled, per plan) a
    // preemption point, so that a task can be held in the middle of a loop
    // that makes no call and touches no shared object.
    if (tl_acc_next && tl_accesses >= tl_acc_next) {
      tl_acc_next = tl_accesses + 1 + splitmix64(&tl_acc_rng) % (2 * g_acc_interval);
      if (g_logging && g_yield && g_task && g_task() >= 0) g_yield(Y_FUNC);
    }
    return;
  }
  if (!g_logging || !g_task) return;
  const int t = g_task();
  if (t < 0) return;
  // Preemption point *before* the access.
  if (g_yield) g_yield(is_write ? Y_STATIC_WRITE : Y_STATIC_READ);
  RecordAccess(t, a, size, is_write, pc);
}

void Acquire(int t, SyncObj *s) {
  for (int i = 0; i < kMaxTasks; ++i) g_vc[t][i] = std::max(g_vc[t][i], s->vc[i]);
}
void Release(int t, SyncObj *s) {
  for (int i = 0; i < kMaxTasks; ++i) s->vc[i] = std::max(s->vc[i], g_vc[t][i]);
  ++g_vc[t][t];
}

int CurrentTask() { return (g_logging && g_task) ? g_task() : -1; }

}  // namespace

void TsanSetHooks(TsanYieldFn yield, TsanTaskFn task) {
  g_yield = yield;
  g_task = task;
}
void TsanSetYieldTo(void (*fn)(int)) { g_yield_to = fn; }

void TsanBeginEpisode(int num_tasks) {
  InitStaticRange();
  memset(g_vc, 0, sizeof(g_vc));
  for (int t = 0; t < kMaxTasks; ++t) g_vc[t][t] = 1;
  memset(g_shadow, 0, kShadowCap * sizeof(Shadow));
  memset(g_sync, 0, kSyncCap * sizeof(SyncObj));
  g_nraces = 0;
  g_static_accesses = 0;
  g_total_accesses = 0;
  g_num_tasks = num_tasks > kMaxTasks ? kMaxTasks : num_tasks;
  g_logging = true;
}

void TsanEndEpisode(std::vector<RaceReport> *races, uint64_t *static_accesses,
                    uint64_t *total_accesses) {
  g_logging = false;
  if (races) {
    for (size_t i = 0; i < g_nraces; ++i) {
      RaceReport r;
      r.addr = g_races[i].addr;
      r.task_a = g_races[i].ta;
      r.task_b = g_races[i].tb;
      r.write_a = g_races[i].wa;
      r.write_b = g_races[i].wb;
      r.pc_a = g_races[i].pa;
      r.pc_b = g_races[i].pb;
      r.symbol = TsanSymbolOf(r.addr);
      races->push_back(r);
    }
  }
  if (static_accesses) *static_accesses = g_static_accesses;
  if (total_accesses) *total_accesses = g_total_accesses;
}

void TsanTaskStart(int task) {
  (void)task;
  tl_accesses = 0;
  tl_func_count = 0;
  tl_func_rng = mix64(g_func_seed, static_cast<uint64_t>(task) + 1);
  tl_func_next = g_func_interval ? 1 + splitmix64(&tl_func_rng) % (2 * g_func_interval) : 0;
  tl_acc_rng = mix64(g_func_seed ^ 0xacce55, static_cast<uint64_t>(task) + 1);
  tl_acc_next = g_acc_interval ? 1 + splitmix64(&tl_acc_rng) % (2 * g_acc_interval) : 0;
}

uint64_t TsanThreadAccesses() { return tl_accesses; }

void TsanTaskEnd() { __atomic_fetch_add(&g_total_accesses, tl_accesses, __ATOMIC_RELAXED); }

void TsanSetFuncSampling(uint64_t mean_interval, uint64_t seed) {
  g_func_interval = mean_interval;
  g_func_seed = seed;
}
void TsanSetAccessSampling(uint64_t mean_interval) { g_acc_interval = mean_interval; }

bool TsanIsStatic(uintptr_t addr) {
  InitStaticRange();
  return addr - g_lo < g_span;
}

std::string TsanSymbolOf(uintptr_t addr) {
  for (size_t i = 0; i < g_nsyms; ++i)
    if (addr >= g_syms[i].addr && addr < g_syms[i].addr + g_syms[i].size)
      return g_syms[i].name;
  char buf[32];
  snprintf(buf, sizeof(buf), "static+0x%lx", static_cast<unsigned long>(addr - g_lo));
  return buf;
}

uint64_t TsanStaticBytes() {
  InitStaticRange();
  return g_span;
}
size_t TsanNumSymbols() {
  InitStaticRange();
  return g_nsyms;
}

}  // namespace sim

// ------------------------------------------------------------- the ABI ----
using sim::OnAccess;
#define PC reinterpret_cast<uintptr_t>(__builtin_return_address(0))

extern "C" {

void __tsan_init() {}

void __tsan_read1(void *a) { OnAccess(a, 1, false, PC); }
void __tsan_read2(void *a) { OnAccess(a, 2, false, PC); }
void __tsan_read4(void *a) { OnAccess(a, 4, false, PC); }
void __tsan_read8(void *a) { OnAccess(a, 8, false, PC); }
void __tsan_read16(void *a) { OnAccess(a, 16, false, PC); }
void __tsan_write1(void *a) { OnAccess(a, 1, true, PC); }
void __tsan_write2(void *a) { OnAccess(a, 2, true, PC); }
void __tsan_write4(void *a) { OnAccess(a, 4, true, PC); }
void __tsan_write8(void *a) { OnAccess(a, 8, true, PC); }
void __tsan_write16(void *a) { OnAccess(a, 16, true, PC); }
void __tsan_unaligned_read2(void *a) { OnAccess(a, 2, false, PC); }
void __tsan_unaligned_read4(void *a) { OnAccess(a, 4, false, PC); }
void __tsan_unaligned_read8(void *a) { OnAccess(a, 8, false, PC); }
void __tsan_unaligned_read16(void *a) { OnAccess(a, 16, false, PC); }
void __tsan_unaligned_write2(void *a) { OnAccess(a, 2, true, PC); }
void __tsan_unaligned_write4(void *a) { OnAccess(a, 4, true, PC); }
void __tsan_unaligned_write8(void *a) { OnAccess(a, 8, true, PC); }
void __tsan_unaligned_write16(void *a) { OnAccess(a, 16, true, PC); }
void __tsan_read_range(void *a, unsigned long n) { OnAccess(a, n, false, PC); }
void __tsan_write_range(void *a, unsigned long n) { OnAccess(a, n, true, PC); }
void __tsan_vptr_update(void **vptr_p, void *) { OnAccess(vptr_p, 8, true, PC); }
void __tsan_vptr_read(void **vptr_p) { OnAccess(vptr_p, 8, false, PC); }
void __tsan_ignore_thread_begin() {}
void __tsan_ignore_thread_end() {}

void __tsan_func_entry(void *) {
  using namespace sim;
  if (!tl_func_next || !g_func_interval) return;
  if (++tl_func_count < tl_func_next) return;
  tl_func_next = tl_func_count + 1 + splitmix64(&tl_func_rng) % (2 * g_func_interval);
  if (g_logging && g_yield && g_task && g_task() >= 0) g_yield(Y_FUNC);
}
void __tsan_func_exit() {}

// Atomics: every store is a release, every load an acquire (conservative for
// the race oracle; Draco uses none on codec paths).
#define TSAN_ATOMIC(N, T)                                                        \
  T __tsan_atomic##N##_load(const volatile T *a, int) {                          \
    using namespace sim;                                                         \
    int t = CurrentTask();                                                       \
    if (t >= 0 && g_yield) g_yield(Y_ATOMIC);                                    \
    T v = __atomic_load_n(a, __ATOMIC_SEQ_CST);                                  \
    if (t >= 0) Acquire(t, FindSync(reinterpret_cast<uintptr_t>(a)));            \
    return v;                                                                    \
  }                                                                              \
  void __tsan_atomic##N##_store(volatile T *a, T v, int) {                       \
    using namespace sim;                                                         \
    int t = CurrentTask();                                                       \
    if (t >= 0 && g_yield) g_yield(Y_ATOMIC);                                    \
    if (t >= 0) Release(t, FindSync(reinterpret_cast<uintptr_t>(a)));            \
    __atomic_store_n(a, v, __ATOMIC_SEQ_CST);                                    \
  }                                                                              \
  T __tsan_atomic##N##_exchange(volatile T *a, T v, int) {                       \
    using namespace sim;                                                         \
    int t = CurrentTask();                                                       \
    if (t >= 0 && g_yield) g_yield(Y_ATOMIC);                                    \
    if (t >= 0) {                                                                \
      SyncObj *s = FindSync(reinterpret_cast<uintptr_t>(a));                     \
      Acquire(t, s);                                                             \
      Release(t, s);                                                             \
    }                                                                            \
    return __atomic_exchange_n(a, v, __ATOMIC_SEQ_CST);                          \
  }                                                                              \
  int __tsan_atomic##N##_compare_exchange_strong(volatile T *a, T *c, T v, int,  \
                                                 int) {                          \
    using namespace sim;                                                         \
    int t = CurrentTask();                                                       \
    if (t >= 0 && g_yield) g_yield(Y_ATOMIC);                                    \
    if (t >= 0) {                                                                \
      SyncObj *s = FindSync(reinterpret_cast<uintptr_t>(a));                     \
      Acquire(t, s);                                                             \
      Release(t, s);                                                             \
    }                                                                            \
    return __atomic_compare_exchange_n(a, c, v, false, __ATOMIC_SEQ_CST,         \
                                       __ATOMIC_SEQ_CST);                        \
  }                                                                              \
  int __tsan_atomic##N##_compare_exchange_weak(volatile T *a, T *c, T v, int mo, \
                                               int fmo) {                        \
    return __tsan_atomic##N##_compare_exchange_strong(a, c, v, mo, fmo);         \
  }                                                                              \
  T __tsan_atomic##N##_compare_exchange_val(volatile T *a, T c, T v, int mo,     \
                                            int fmo) {                           \
    __tsan_atomic##N##_compare_exchange_strong(a, &c, v, mo, fmo);               \
    return c;                                                                    \
  }
#define TSAN_ATOMIC_RMW(N, T, OP, BUILTIN)                                       \
  T __tsan_atomic##N##_fetch_##OP(volatile T *a, T v, int) {                     \
    using namespace sim;                                                         \
    int t = CurrentTask();                                                       \
    if (t >= 0 && g_yield) g_yield(Y_ATOMIC);                                    \
    if (t >= 0) {                                                                \
      SyncObj *s = FindSync(reinterpret_cast<uintptr_t>(a));                     \
      Acquire(t, s);                                                             \
      Release(t, s);                                                             \
    }                                                                            \
    return BUILTIN(a, v, __ATOMIC_SEQ_CST);                                      \
  }
#define TSAN_ATOMIC_ALL(N, T)                         \
  TSAN_ATOMIC(N, T)                                   \
  TSAN_ATOMIC_RMW(N, T, add, __atomic_fetch_add)      \
  TSAN_ATOMIC_RMW(N, T, sub, __atomic_fetch_sub)      \
  TSAN_ATOMIC_RMW(N, T, and, __atomic_fetch_and)      \
  TSAN_ATOMIC_RMW(N, T, or, __atomic_fetch_or)        \
  TSAN_ATOMIC_RMW(N, T, xor, __atomic_fetch_xor)      \
  TSAN_ATOMIC_RMW(N, T, nand, __atomic_fetch_nand)

TSAN_ATOMIC_ALL(8, unsigned char)
TSAN_ATOMIC_ALL(16, unsigned short)
TSAN_ATOMIC_ALL(32, unsigned int)
TSAN_ATOMIC_ALL(64, unsigned long)

void __tsan_atomic_thread_fence(int) { __atomic_thread_fence(__ATOMIC_SEQ_CST); }
void __tsan_atomic_signal_fence(int) {}

// ---- link-time wraps (calls made from instrumented code and everyone else) --
void *__real_memcpy(void *, const void *, size_t);
void *__real_memmove(void *, const void *, size_t);
void *__real_memset(void *, int, size_t);
void *__wrap_memcpy(void *d, const void *s, size_t n) {
  if (n) {
    OnAccess(s, n, false, PC);
    OnAccess(d, n, true, PC);
  }
  return __real_memcpy(d, s, n);
}
void *__wrap_memmove(void *d, const void *s, size_t n) {
  if (n) {
    OnAccess(s, n, false, PC);
    OnAccess(d, n, true, PC);
  }
  return __real_memmove(d, s, n);
}
void *__wrap_memset(void *d, int c, size_t n) {
  if (n) OnAccess(d, n, true, PC);
  return __real_memset(d, c, n);
}

// libc functions that keep hidden process-wide state (POSIX: "need not be
// thread-safe", or one shared sequence). libc itself is not instrumented, so
// the state is modelled: every call is a write access to a stand-in object in
// this executable's static storage, i.e. a preemption point and an entry in
// the race log (two tasks calling strtok without a happens-before edge are a
// data race on the stand-in, which is what the real static is).
char sim_libc_state_strtok;
char sim_libc_state_rand;
char sim_libc_state_strerror;
char sim_libc_state_localtime;
char sim_libc_state_setlocale;
char *__real_strtok(char *, const char *);
char *__wrap_strtok(char *s, const char *d) {
  OnAccess(&sim_libc_state_strtok, 1, true, PC);
  return __real_strtok(s, d);
}
int __real_rand(void);
int __wrap_rand(void) {
  OnAccess(&sim_libc_state_rand, 1, true, PC);
  return __real_rand();
}
void __real_srand(unsigned);
void __wrap_srand(unsigned v) {
  OnAccess(&sim_libc_state_rand, 1, true, PC);
  __real_srand(v);
}
long __real_random(void);
long __wrap_random(void) {
  OnAccess(&sim_libc_state_rand, 1, true, PC);
  return __real_random();
}
char *__real_strerror(int);
char *__wrap_strerror(int e) {
  OnAccess(&sim_libc_state_strerror, 1, true, PC);
  return __real_strerror(e);
}
struct tm;
typedef long sim_time_t;
struct tm *__real_localtime(const sim_time_t *);
struct tm *__wrap_localtime(const sim_time_t *t) {
  OnAccess(&sim_libc_state_localtime, 1, true, PC);
  return __real_localtime(t);
}
struct tm *__real_gmtime(const sim_time_t *);
struct tm *__wrap_gmtime(const sim_time_t *t) {
  OnAccess(&sim_libc_state_localtime, 1, true, PC);
  return __real_gmtime(t);
}
char *__real_setlocale(int, const char *);
char *__wrap_setlocale(int c, const char *l) {
  OnAccess(&sim_libc_state_setlocale, 1, l != nullptr, PC);
  return __real_setlocale(c, l);
}

int __real___cxa_guard_acquire(void *);
void __real___cxa_guard_release(void *);
void __real___cxa_guard_abort(void *);
int __wrap___cxa_guard_acquire(void *g) {
  using namespace sim;
  const int t = CurrentTask();
  if (t < 0) return __real___cxa_guard_acquire(g);
  if (g_yield) g_yield(Y_GUARD);
  SyncObj *s = FindSync(reinterpret_cast<uintptr_t>(g));
  // Another task is inside this initialiser: run it until it is done (the
  // real guard would block this thread forever under a one-baton scheduler).
  while (s->owner >= 0 && s->owner != t && g_yield_to) g_yield_to(s->owner);
  const int r = __real___cxa_guard_acquire(g);
  if (r) {
    s->owner = t;
  } else {
    Acquire(t, s);
  }
  return r;
}
void __wrap___cxa_guard_release(void *g) {
  using namespace sim;
  const int t = CurrentTask();
  if (t >= 0) {
    SyncObj *s = FindSync(reinterpret_cast<uintptr_t>(g));
    Release(t, s);
    s->owner = -1;
  }
  __real___cxa_guard_release(g);
}
void __wrap___cxa_guard_abort(void *g) {
  using namespace sim;
  const int t = CurrentTask();
  if (t >= 0) FindSync(reinterpret_cast<uintptr_t>(g))->owner = -1;
  __real___cxa_guard_abort(g);
}

int __real_pthread_mutex_lock(pthread_mutex_t *);
int __real_pthread_mutex_unlock(pthread_mutex_t *);
int __real_pthread_mutex_trylock(pthread_mutex_t *);
int __wrap_pthread_mutex_lock(pthread_mutex_t *m) {
  using namespace sim;
  const int t = CurrentTask();
  if (t < 0) return __real_pthread_mutex_lock(m);
  if (g_yield) g_yield(Y_MUTEX);
  SyncObj *s = FindSync(reinterpret_cast<uintptr_t>(m));
  while (s->owner >= 0 && s->owner != t && g_yield_to) g_yield_to(s->owner);
  const int r = __real_pthread_mutex_lock(m);
  if (r == 0) {
    s->owner = t;
    Acquire(t, s);
  }
  return r;
}
int __wrap_pthread_mutex_trylock(pthread_mutex_t *m) {
  using namespace sim;
  const int t = CurrentTask();
  if (t < 0) return __real_pthread_mutex_trylock(m);
  if (g_yield) g_yield(Y_MUTEX);
  const int r = __real_pthread_mutex_trylock(m);
  if (r == 0) {
    SyncObj *s = FindSync(reinterpret_cast<uintptr_t>(m));
    s->owner = t;
    Acquire(t, s);
  }
  return r;
}
int __wrap_pthread_mutex_unlock(pthread_mutex_t *m) {
  using namespace sim;
  const int t = CurrentTask();
  if (t >= 0) {
    SyncObj *s = FindSync(reinterpret_cast<uintptr_t>(m));
    Release(t, s);
    s->owner = -1;
  }
  return __real_pthread_mutex_unlock(m);
}

}  // extern "C"
