#include "alloc.h"

#include <execinfo.h>
#include <stdlib.h>
#include <string.h>
#include <sys/mman.h>

#include <new>

#include "common.h"
#include "steps.h"

#if defined(__has_feature)
#if __has_feature(address_sanitizer)
#define SIM_ASAN 1
#include <sanitizer/asan_interface.h>
#endif
#endif

namespace sim {

void (*g_alloc_yield)(int kind) = nullptr;

namespace {

struct Entry {
  void *ptr;   // user pointer; nullptr = empty, (void*)1 = tombstone
  void *base;  // what malloc returned
  size_t size;
  uint32_t epoch;  // AllocBegin epoch in which it was allocated
};

struct Table {
  Entry *e = nullptr;
  size_t cap = 0;
  size_t used = 0;  // including tombstones
  size_t live = 0;
};

Table g_tab;
AllocConfig g_cfg;
AllocStats g_stats;
uint64_t g_declared[4];  // points, faces, vertices, attribute bytes (sum)
uint32_t g_epoch = 0;
Rng g_rng(1);

constexpr int kQuarantineSlots = 32;
struct QEntry {
  void *base;
};
QEntry g_quar[kQuarantineSlots];
int g_quar_n = 0;

inline size_t HashPtr(const void *p) {
  uint64_t x = reinterpret_cast<uintptr_t>(p);
  x ^= x >> 33;
  x *= 0xff51afd7ed558ccdull;
  x ^= x >> 29;
  return static_cast<size_t>(x);
}

void TableGrow() {
  size_t ncap = g_tab.cap ? g_tab.cap * 2 : 4096;
  if (g_tab.cap && g_tab.live * 4 < g_tab.cap) ncap = g_tab.cap;  // rehash only
  Entry *ne = static_cast<Entry *>(calloc(ncap, sizeof(Entry)));
  if (!ne) abort();
  for (size_t i = 0; i < g_tab.cap; ++i) {
    Entry &o = g_tab.e[i];
    if (o.ptr == nullptr || o.ptr == reinterpret_cast<void *>(1)) continue;
    size_t h = HashPtr(o.ptr) & (ncap - 1);
    while (ne[h].ptr) h = (h + 1) & (ncap - 1);
    ne[h] = o;
  }
  free(g_tab.e);
  g_tab.e = ne;
  g_tab.cap = ncap;
  g_tab.used = g_tab.live;
}

void TableInsert(void *ptr, void *base, size_t size) {
  if ((g_tab.used + 1) * 2 > g_tab.cap) TableGrow();
  size_t h = HashPtr(ptr) & (g_tab.cap - 1);
  while (g_tab.e[h].ptr && g_tab.e[h].ptr != reinterpret_cast<void *>(1))
    h = (h + 1) & (g_tab.cap - 1);
  if (g_tab.e[h].ptr == nullptr) ++g_tab.used;
  g_tab.e[h].ptr = ptr;
  g_tab.e[h].base = base;
  g_tab.e[h].size = size;
  g_tab.e[h].epoch = g_epoch;
  ++g_tab.live;
}

Entry *TableFind(void *ptr) {
  if (!g_tab.cap) return nullptr;
  size_t h = HashPtr(ptr) & (g_tab.cap - 1);
  while (g_tab.e[h].ptr) {
    if (g_tab.e[h].ptr == ptr) return &g_tab.e[h];
    h = (h + 1) & (g_tab.cap - 1);
  }
  return nullptr;
}

inline uint64_t SatMul(uint64_t a, uint64_t b) {
  unsigned __int128 r = static_cast<unsigned __int128>(a) * b;
  if (r > 0x7fffffffffffffffull) return 0x7fffffffffffffffull;
  return static_cast<uint64_t>(r);
}
inline uint64_t SatAdd(uint64_t a, uint64_t b) {
  uint64_t r = a + b;
  if (r < a || r > 0x7fffffffffffffffull) return 0x7fffffffffffffffull;
  return r;
}

uint64_t ComputeU() {
  // U = len + P*(1+C) + 3F + V
  uint64_t u = g_cfg.input_len;
  u = SatAdd(u, SatMul(g_declared[0], 1 + g_declared[3]));
  u = SatAdd(u, SatMul(3, g_declared[1]));
  u = SatAdd(u, g_declared[2]);
  return u;
}

void RealFree(void *base, size_t pad) {
#ifdef SIM_ASAN
  if (pad) __asan_unpoison_memory_region(base, pad);
#endif
  (void)pad;
  free(base);
}

uint64_t g_hard_cap = 0;

// Descending arena: lazily committed anonymous memory, bump pointer moving down.
uint8_t *g_arena = nullptr;
constexpr size_t kArenaSize = 512ull << 20;
size_t g_arena_top = 0;
size_t g_arena_bot = 0;
inline bool InArena(const void *p) {
  return g_arena && p >= g_arena && p < g_arena + kArenaSize;
}

void *Allocate(size_t size, size_t align, bool nothrow) {
  if (g_alloc_yield) g_alloc_yield(0);
  if (size == 0) size = 1;
  if (g_hard_cap && size > g_hard_cap) {
    if (nothrow) return nullptr;
    throw std::bad_alloc();
  }
  if (!g_cfg.active && !g_cfg.perturb) {
    void *p;
    if (align > 16) {
      if (posix_memalign(&p, align, size) != 0) p = nullptr;
    } else {
      p = malloc(size);
    }
    if (!p && !nothrow) throw std::bad_alloc();
    return p;
  }
  if (g_cfg.active) {
    ++g_stats.count;
    g_stats.bytes += size;
    const uint64_t u = ComputeU();
    if (size > g_stats.largest) {
      g_stats.largest = size;
      g_stats.largest_u = u;
    }
    // Top-N log.
    if (g_stats.ntop < 8) {
      g_stats.top[g_stats.ntop++] = AllocBig{size, g_steps, u};
    } else {
      int m = 0;
      for (int i = 1; i < 8; ++i)
        if (g_stats.top[i].size < g_stats.top[m].size) m = i;
      if (g_stats.top[m].size < size) g_stats.top[m] = AllocBig{size, g_steps, u};
    }
    if (g_cfg.bound && g_stats.viol_kind == 0) {
      const uint64_t lim1 = SatAdd(g_cfg.a1, SatMul(g_cfg.k1, u));
      const uint64_t lim2 = SatAdd(g_cfg.a2, SatMul(g_cfg.k2, u));
      int kind = 0;
      if (size > lim1) {
        kind = 1;
      } else if (SatAdd(g_stats.live, size) > lim2) {
        kind = 2;
      }
      if (kind) {
        g_stats.viol_kind = kind;
        g_stats.viol_size = size;
        g_stats.viol_u = u;
        g_stats.viol_live = g_stats.live;
        g_stats.viol_step = g_steps;
        g_stats.viol_nbt = backtrace(g_stats.viol_bt, 16);
      }
    }
    if (g_cfg.budget &&
        (size > g_cfg.budget || g_stats.live + size > g_cfg.budget)) {
      // Simulated allocation failure.
      bool outside = false;
      if (g_cfg.bound) {
        const uint64_t lim1 = SatAdd(g_cfg.a1, SatMul(g_cfg.k1, u));
        const uint64_t lim2 = SatAdd(g_cfg.a2, SatMul(g_cfg.k2, u));
        outside = size > lim1 || SatAdd(g_stats.live, size) > lim2;
      }
      if (outside) {
        ++g_stats.refused_outside;
      } else {
        ++g_stats.refused_inside;
      }
      if (nothrow) return nullptr;
      throw std::bad_alloc();
    }
  }
  if (g_cfg.perturb && (g_cfg.descending || g_cfg.ascending)) {
    if (!g_arena) {
      void *m = mmap(nullptr, kArenaSize, PROT_READ | PROT_WRITE,
                     MAP_PRIVATE | MAP_ANONYMOUS | MAP_NORESERVE, -1, 0);
      if (m != MAP_FAILED) {
        g_arena = static_cast<uint8_t *>(m);
        g_arena_top = kArenaSize;
#ifdef SIM_ASAN
        // The address range may have belonged to ASan's own large-block
        // allocator before: its shadow can still be poisoned.
        __asan_unpoison_memory_region(g_arena, kArenaSize);
#endif
      }
    }
    const size_t al = align > 16 ? align : 16;
    const size_t gap = static_cast<size_t>(g_rng.Below(4)) * 16;
    const size_t need = ((size + al - 1) / al) * al + gap;
    if (g_arena && g_arena_top > g_arena_bot + need + 2 * al + 8192) {
      uint8_t *user;
      if (g_cfg.descending) {
        g_arena_top = (g_arena_top - need) & ~(al - 1);
        user = g_arena + g_arena_top;
      } else {
        g_arena_bot = (g_arena_bot + gap + al - 1) & ~(al - 1);
        user = g_arena + g_arena_bot;
        g_arena_bot += ((size + al - 1) / al) * al;
      }
#ifdef SIM_ASAN
      // Stale poison of an earlier tenant of these addresses (e.g. the array
      // cookie of a new[] block) must not survive the arena reset.
      __asan_unpoison_memory_region(user, need);
#endif
      switch (g_cfg.fill_mode) {
        case 1:
          memset(user, 0x00, size);
          break;
        case 2:
          memset(user, 0xFF, size);
          break;
        default:
          memset(user, 0xA5, size);
          break;
      }
      TableInsert(user, nullptr, size);
      if (g_cfg.active) {
        g_stats.live += size;
        if (g_stats.live > g_stats.peak) {
          g_stats.peak = g_stats.live;
          g_stats.peak_u = ComputeU();
        }
      }
      return user;
    }
  }
  size_t pad = 0;
  if (g_cfg.perturb && g_cfg.pad) {
    pad = static_cast<size_t>(g_rng.Below(17)) * 16;
    if (align > 16) pad = (pad + align - 1) / align * align;
  }
  void *base;
  if (align > 16) {
    if (posix_memalign(&base, align, size + pad) != 0) base = nullptr;
  } else {
    base = malloc(size + pad);
  }
  if (!base) {
    if (nothrow) return nullptr;
    throw std::bad_alloc();
  }
  uint8_t *user = static_cast<uint8_t *>(base) + pad;
  if (g_cfg.perturb) {
    switch (g_cfg.fill_mode) {
      case 1:
        memset(user, 0x00, size);
        break;
      case 2:
        memset(user, 0xFF, size);
        break;
      case 3:
        memset(user, 0xA5, size);
        break;
      default: {
        uint64_t s = g_rng.Next();
        size_t i = 0;
        for (; i + 8 <= size; i += 8) {
          uint64_t v = splitmix64(&s);
          memcpy(user + i, &v, 8);
        }
        uint64_t v = splitmix64(&s);
        for (; i < size; ++i) {
          user[i] = static_cast<uint8_t>(v);
          v >>= 8;
        }
      }
    }
#ifdef SIM_ASAN
    if (pad) __asan_poison_memory_region(base, pad);
#endif
  }
  TableInsert(user, base, size);
  if (g_cfg.active) {
    g_stats.live += size;
    if (g_stats.live > g_stats.peak) {
      g_stats.peak = g_stats.live;
      g_stats.peak_u = ComputeU();
    }
  }
  return user;
}

void Deallocate(void *p) {
  if (!p) return;
  if (g_alloc_yield) g_alloc_yield(1);
  Entry *e = TableFind(p);
  if (!e) {
    if (!InArena(p)) free(p);
    return;
  }
  void *base = e->base;
  size_t size = e->size;
  if (base == nullptr) {
    // Arena block: never reused before the arena is reset.
    const bool counted_a = e->epoch == g_epoch;
    e->ptr = reinterpret_cast<void *>(1);
    --g_tab.live;
    if (g_cfg.active && counted_a)
      g_stats.live = g_stats.live >= size ? g_stats.live - size : 0;
    return;
  }
  size_t pad = static_cast<uint8_t *>(p) - static_cast<uint8_t *>(base);
  bool counted = e->epoch == g_epoch;
  e->ptr = reinterpret_cast<void *>(1);
  --g_tab.live;
  if (g_cfg.active && counted) {
    g_stats.live = g_stats.live >= size ? g_stats.live - size : 0;
  }
  if (g_cfg.perturb && g_cfg.quarantine && pad == 0 && g_rng.Chance(1, 2)) {
    // Delay the real free: changes which address the next request gets.
    if (g_quar_n == kQuarantineSlots) {
      int k = static_cast<int>(g_rng.Below(kQuarantineSlots));
      free(g_quar[k].base);
      g_quar[k].base = base;
    } else {
      g_quar[g_quar_n++].base = base;
    }
    return;
  }
  RealFree(base, pad);
}

}  // namespace

void AllocBegin(const AllocConfig &cfg) {
  g_cfg = cfg;
  g_stats = AllocStats();
  memset(g_declared, 0, sizeof(g_declared));
  ++g_epoch;
  g_rng.Seed(mix64(cfg.env_seed, 0xA110C));
}

void AllocEnd(bool free_leftovers) {
  g_cfg.active = false;
  g_cfg.perturb = false;
  g_cfg.budget = 0;
  g_cfg.bound = false;
  if (free_leftovers && g_tab.cap) {
    for (size_t i = 0; i < g_tab.cap; ++i) {
      Entry &e = g_tab.e[i];
      if (e.ptr == nullptr || e.ptr == reinterpret_cast<void *>(1)) continue;
      if (e.epoch != g_epoch) continue;
      if (e.base != nullptr) {
        size_t pad =
            static_cast<uint8_t *>(e.ptr) - static_cast<uint8_t *>(e.base);
        RealFree(e.base, pad);
      }
      e.ptr = reinterpret_cast<void *>(1);
      --g_tab.live;
    }
  }
}

void AllocSetHardCap(uint64_t bytes) { g_hard_cap = bytes; }

bool AllocArenaEverywhere() {
#ifdef SIM_ASAN
  return false;
#else
  return true;
#endif
}

void AllocArenaReset() {
  if (!g_arena) return;
  // Give the pages back (keeps the mapping): the next plan starts from zeros.
  madvise(g_arena, kArenaSize, MADV_DONTNEED);
  g_arena_top = kArenaSize;
  g_arena_bot = 0;
  // Blocks that were never freed (objects abandoned on purpose) must not
  // shadow the blocks that will be placed at the same addresses.
  for (size_t i = 0; i < g_tab.cap; ++i) {
    Entry &e = g_tab.e[i];
    if (e.ptr == nullptr || e.ptr == reinterpret_cast<void *>(1)) continue;
    if (e.base == nullptr) {
      e.ptr = reinterpret_cast<void *>(1);
      --g_tab.live;
    }
  }
}

void AllocFlushQuarantine() {
  for (int i = 0; i < g_quar_n; ++i) free(g_quar[i].base);
  g_quar_n = 0;
}

const AllocStats &AllocGetStats() { return g_stats; }
uint64_t AllocCurrentU() { return ComputeU(); }
void AllocSetInputLen(uint64_t len) { g_cfg.input_len = len; }

void AllocDeclare(int kind, uint64_t n) {
  if (kind < 0 || kind > 3) return;
  if (kind == 3) {
    g_declared[3] = SatAdd(g_declared[3], n);
  } else if (n > g_declared[kind]) {
    g_declared[kind] = n;
  }
}

void AllocGetDeclared(uint64_t out[4]) {
  for (int i = 0; i < 4; ++i) out[i] = g_declared[i];
}

void AllocVisitLive(AllocVisitFn fn, void *ctx) {
  for (size_t i = 0; i < g_tab.cap; ++i) {
    Entry &e = g_tab.e[i];
    if (e.ptr == nullptr || e.ptr == reinterpret_cast<void *>(1)) continue;
    if (e.epoch != g_epoch) continue;
    fn(ctx, e.ptr, e.size);
  }
}

}  // namespace sim

// ------------------------------------------------ global replacements ----
void *operator new(size_t n) { return sim::Allocate(n, 0, false); }
void *operator new[](size_t n) { return sim::Allocate(n, 0, false); }
void *operator new(size_t n, const std::nothrow_t &) noexcept {
  return sim::Allocate(n, 0, true);
}
void *operator new[](size_t n, const std::nothrow_t &) noexcept {
  return sim::Allocate(n, 0, true);
}
void *operator new(size_t n, std::align_val_t a) {
  return sim::Allocate(n, static_cast<size_t>(a), false);
}
void *operator new[](size_t n, std::align_val_t a) {
  return sim::Allocate(n, static_cast<size_t>(a), false);
}
void *operator new(size_t n, std::align_val_t a,
                   const std::nothrow_t &) noexcept {
  return sim::Allocate(n, static_cast<size_t>(a), true);
}
void *operator new[](size_t n, std::align_val_t a,
                     const std::nothrow_t &) noexcept {
  return sim::Allocate(n, static_cast<size_t>(a), true);
}
void operator delete(void *p) noexcept { sim::Deallocate(p); }
void operator delete[](void *p) noexcept { sim::Deallocate(p); }
void operator delete(void *p, size_t) noexcept { sim::Deallocate(p); }
void operator delete[](void *p, size_t) noexcept { sim::Deallocate(p); }
void operator delete(void *p, const std::nothrow_t &) noexcept {
  sim::Deallocate(p);
}
void operator delete[](void *p, const std::nothrow_t &) noexcept {
  sim::Deallocate(p);
}
void operator delete(void *p, std::align_val_t) noexcept { sim::Deallocate(p); }
void operator delete[](void *p, std::align_val_t) noexcept {
  sim::Deallocate(p);
}
void operator delete(void *p, size_t, std::align_val_t) noexcept {
  sim::Deallocate(p);
}
void operator delete[](void *p, size_t, std::align_val_t) noexcept {
  sim::Deallocate(p);
}
