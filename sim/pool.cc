#include "pool.h"

#include <errno.h>
#include <fcntl.h>
#include <poll.h>
#include <signal.h>
#include <string.h>
#include <sys/mman.h>
#include <sys/syscall.h>
#include <sys/wait.h>
#include <time.h>
#include <unistd.h>

#include <cstdio>
#include <cstdlib>
#include <algorithm>
#include <map>
#include <vector>

#include "common.h"

namespace sim {

namespace {

constexpr int kMaxWorkers = 64;

struct Slot {
  volatile uint64_t cur_idx;
  volatile uint64_t run_counter;
  volatile uint32_t in_run;
  volatile uint32_t tag;
};

struct Shm {
  volatile int stop;
  uint64_t next;  // next run index to hand out (fetch-add by the workers)
  Slot w[kMaxWorkers];
};

Shm *g_shm = nullptr;
int g_self = -1;
int g_hash_fd = -1;

struct Worker {
  pid_t pid = -1;
  int fd = -1;
  std::string buf;
  uint64_t next_start = 0;
  int generation = 0;
  bool done = false;
  uint64_t seen_counter = 0;
  double seen_at = 0;
  bool killed_wallclock = false;
  std::string log_path;
};

void WriteAll(int fd, const std::string &s) {
  size_t off = 0;
  while (off < s.size()) {
    ssize_t n = write(fd, s.data() + off, s.size() - off);
    if (n < 0) {
      if (errno == EINTR) continue;
      _exit(3);
    }
    off += static_cast<size_t>(n);
  }
}

}  // namespace

double WallNow() {
  struct timespec ts;
  syscall(SYS_clock_gettime, CLOCK_MONOTONIC, &ts);
  return ts.tv_sec + ts.tv_nsec * 1e-9;
}

bool PoolShouldStop() { return g_shm && g_shm->stop; }

void PoolLogRunHash(uint64_t idx, uint64_t hash) {
  if (g_hash_fd < 0) return;
  uint64_t rec[2] = {idx, hash};
  ssize_t r = write(g_hash_fd, rec, sizeof(rec));
  (void)r;
}

void PoolSetTag(uint32_t tag) {
  if (g_shm && g_self >= 0) g_shm->w[g_self].tag = tag;
}

PoolResult RunPool(const PoolOptions &opt, const PoolCallbacks &cb) {
  PoolResult res;
  const double t0 = WallNow();
  int W = opt.workers;
  if (W < 1) W = 1;
  if (W > kMaxWorkers) W = kMaxWorkers;
  const uint64_t total = opt.end > opt.begin ? opt.end - opt.begin : 0;
  if (total < static_cast<uint64_t>(W)) W = total ? static_cast<int>(total) : 1;
  g_shm = static_cast<Shm *>(mmap(nullptr, sizeof(Shm), PROT_READ | PROT_WRITE,
                                  MAP_SHARED | MAP_ANONYMOUS, -1, 0));
  if (g_shm == MAP_FAILED) abort();
  memset(g_shm, 0, sizeof(Shm));
  g_shm->next = opt.begin;
  // Stride coprime to |total| (a bijection of the index space).
  uint64_t stride = 1000003;
  if (opt.permute && total > 1) {
    auto gcd = [](uint64_t a, uint64_t b) {
      while (b) {
        uint64_t t = a % b;
        a = b;
        b = t;
      }
      return a;
    };
    while (gcd(stride, total > opt.head ? total - opt.head : total) != 1) ++stride;
  }
  const uint64_t head = opt.head;
  std::vector<Worker> ws(W);

  auto spawn = [&](int w) {
    Worker &wk = ws[w];
    int p[2];
    if (pipe(p) != 0) abort();
    ++wk.generation;
    char name[512];
    snprintf(name, sizeof(name), "%s/worker%d.%d.err",
             opt.log_dir.empty() ? "/tmp" : opt.log_dir.c_str(), w,
             wk.generation);
    wk.log_path = name;
    g_shm->w[w].in_run = 0;
    fflush(stdout);
    fflush(stderr);
    pid_t pid = fork();
    if (pid < 0) abort();
    if (pid == 0) {
      close(p[0]);
      g_self = w;
      for (int i = 0; i < W; ++i)
        if (ws[i].fd >= 0) close(ws[i].fd);
      int lf = open(name, O_WRONLY | O_CREAT | O_TRUNC, 0644);
      if (lf >= 0) {
        dup2(lf, 2);
        close(lf);
      }
      int dn = open("/dev/null", O_WRONLY);
      if (dn >= 0) {
        dup2(dn, 1);
        close(dn);
      }
      if (opt.hashlog) {
        char hn[512];
        snprintf(hn, sizeof(hn), "%s/runhash.%d.bin",
                 opt.log_dir.empty() ? "/tmp" : opt.log_dir.c_str(), w);
        g_hash_fd = open(hn, O_WRONLY | O_CREAT | O_APPEND, 0644);
      }
      if (cb.init) cb.init(w);
      std::string out;
      // Runs are handed out dynamically (good balance when a few runs are much
      // longer than the rest); every run is a pure function of its index, so
      // which worker executes it does not matter.
      while (true) {
        if (g_shm->stop) break;
        const uint64_t k = __atomic_fetch_add(&g_shm->next, 1, __ATOMIC_RELAXED);
        if (k >= opt.end) break;
        uint64_t idx = k;
        if (opt.permute && k - opt.begin >= head && total > head + 1) {
          const uint64_t rest = total - head;
          idx = opt.begin + head +
                static_cast<uint64_t>(
                    (static_cast<unsigned __int128>(k - opt.begin - head) * stride) % rest);
        }
        g_shm->w[w].cur_idx = idx;
        g_shm->w[w].run_counter = g_shm->w[w].run_counter + 1;
        g_shm->w[w].tag = 0;
        g_shm->w[w].in_run = 1;
        out.clear();
        cb.run(idx, &out);
        g_shm->w[w].in_run = 0;
        if (!out.empty()) WriteAll(p[1], out);
      }
      out.clear();
      if (cb.finish) cb.finish(w, &out);
      if (!out.empty()) WriteAll(p[1], out);
      close(p[1]);
      _exit(0);
    }
    close(p[1]);
    wk.pid = pid;
    wk.fd = p[0];
    wk.buf.clear();
    wk.done = false;
    wk.seen_counter = g_shm->w[w].run_counter;
    wk.seen_at = WallNow();
    wk.killed_wallclock = false;
  };

  for (int w = 0; w < W; ++w) spawn(w);

  auto drain_lines = [&](Worker &wk, bool final) {
    size_t pos;
    while ((pos = wk.buf.find('\n')) != std::string::npos) {
      std::string line = wk.buf.substr(0, pos);
      wk.buf.erase(0, pos + 1);
      if (cb.on_line) cb.on_line(line);
    }
    if (final && !wk.buf.empty()) {
      // Partial line from a worker that died mid-write: drop it.
      wk.buf.clear();
    }
  };

  while (true) {
    std::vector<pollfd> pfds;
    std::vector<int> idxs;
    for (int w = 0; w < W; ++w) {
      if (ws[w].done || ws[w].fd < 0) continue;
      pollfd pf;
      pf.fd = ws[w].fd;
      pf.events = POLLIN;
      pf.revents = 0;
      pfds.push_back(pf);
      idxs.push_back(w);
    }
    if (pfds.empty()) break;
    int rc = poll(pfds.data(), pfds.size(), 200);
    const double now = WallNow();
    if (opt.budget_s > 0 && now - t0 > opt.budget_s && !g_shm->stop) {
      g_shm->stop = 1;
      res.budget_hit = true;
    }
    if (rc < 0 && errno != EINTR) break;
    for (size_t k = 0; k < pfds.size(); ++k) {
      const int w = idxs[k];
      Worker &wk = ws[w];
      if (pfds[k].revents & (POLLIN | POLLHUP | POLLERR)) {
        char buf[65536];
        ssize_t n = read(wk.fd, buf, sizeof(buf));
        if (n > 0) {
          wk.buf.append(buf, static_cast<size_t>(n));
          drain_lines(wk, false);
        } else if (n == 0 || (n < 0 && errno != EINTR && errno != EAGAIN)) {
          // Worker closed the pipe: it exited or died.
          drain_lines(wk, true);
          close(wk.fd);
          wk.fd = -1;
          int status = 0;
          waitpid(wk.pid, &status, 0);
          const bool clean = WIFEXITED(status) && WEXITSTATUS(status) == 0 &&
                             !g_shm->w[w].in_run;
          if (clean) {
            wk.done = true;
          } else {
            ++res.deaths;
            if (opt.max_deaths && res.deaths >= opt.max_deaths && !g_shm->stop) {
              g_shm->stop = 1;
              res.budget_hit = true;
            }
            PoolDeath d;
            d.idx = g_shm->w[w].cur_idx;
            d.in_run = g_shm->w[w].in_run != 0;
            if (WIFEXITED(status)) d.exit_code = WEXITSTATUS(status);
            if (WIFSIGNALED(status)) d.signal = WTERMSIG(status);
            d.wallclock = wk.killed_wallclock;
            d.tag = g_shm->w[w].tag;
            d.log_path = wk.log_path;
            if (cb.on_death) cb.on_death(d);
            if (d.in_run && !g_shm->stop && g_shm->next < opt.end) {
              spawn(w);
            } else {
              wk.done = true;
            }
          }
        }
      }
      // Wall-clock protection.
      if (!wk.done && wk.fd >= 0) {
        const uint64_t c = g_shm->w[w].run_counter;
        if (c != wk.seen_counter) {
          wk.seen_counter = c;
          wk.seen_at = now;
        } else if (opt.run_limit_s > 0 && g_shm->w[w].in_run &&
                   now - wk.seen_at > opt.run_limit_s) {
          wk.killed_wallclock = true;
          kill(wk.pid, SIGKILL);
          wk.seen_at = now;
        }
      }
    }
  }
  uint64_t mx = 0;
  for (int w = 0; w < W; ++w)
    if (g_shm->w[w].cur_idx > mx) mx = g_shm->w[w].cur_idx;
  res.runs_started = mx;
  res.wall_s = WallNow() - t0;
  munmap(g_shm, sizeof(Shm));
  g_shm = nullptr;
  return res;
}

std::string ClassifyDeath(const PoolDeath &d, std::string *sig,
                          std::string *excerpt) {
  std::string log;
  ReadFile(d.log_path, &log);
  if (log.size() > 200000) log = log.substr(log.size() - 200000);
  *excerpt = log.substr(0, 6000);
  auto first_draco_frame = [&](size_t from) -> std::string {
    // Frames look like "    #3 0x4f2a in draco::Foo::Bar(...) /path:line:col"
    // when the sanitizer symbolised them, else "    #3 0x4f2a  (/bin+0x4f2a)".
    // Workers run with symbolize=0 (a symbolizer process per dying worker is
    // what makes crash storms slow); the parent symbolises once per PC.
    std::vector<uint64_t> pcs;
    size_t p = from;
    int frames = 0;
    while ((p = log.find("\n    #", p)) != std::string::npos && frames < 24) {
      ++frames;
      size_t e = log.find('\n', p + 1);
      std::string line = log.substr(p + 1, e == std::string::npos ? std::string::npos
                                                                   : e - p - 1);
      p += 1;
      size_t in = line.find(" in ");
      if (in != std::string::npos) {
        std::string fr = line.substr(in + 4);
        if (fr.find("draco::") != std::string::npos) {
          size_t par = fr.find('(');
          size_t sp = fr.find(" /");
          return fr.substr(0, std::min(par, sp));
        }
        continue;
      }
      size_t x = line.find("0x");
      if (x == std::string::npos) continue;
      uint64_t pc = strtoull(line.c_str() + x, nullptr, 16);
      const bool top = line.find("#0 ") != std::string::npos;
      pcs.push_back(top || pc == 0 ? pc : pc - 1);
      // A second trace ("freed by", "allocated by") starts again at #0.
      if (frames > 1 && top) {
        pcs.pop_back();
        break;
      }
    }
    static std::map<uint64_t, std::string> cache;
    for (uint64_t pc : pcs) {
      auto it = cache.find(pc);
      if (it == cache.end()) {
        // One symbolizer invocation for all unknown PCs of this report.
        char exe[4096];
        ssize_t en = readlink("/proc/self/exe", exe, sizeof(exe) - 1);
        exe[en > 0 ? en : 0] = 0;
        std::string cmd = std::string("/usr/bin/llvm-symbolizer-14 --obj=") + exe +
                          " -f -C -s -i";
        std::vector<uint64_t> need;
        for (uint64_t q : pcs)
          if (!cache.count(q)) {
            char b[32];
            snprintf(b, sizeof(b), " 0x%llx", static_cast<unsigned long long>(q));
            cmd += b;
            need.push_back(q);
          }
        cmd += " 2>/dev/null";
        std::string out;
        if (FILE *f = popen(cmd.c_str(), "r")) {
          char buf[4096];
          size_t n;
          while ((n = fread(buf, 1, sizeof(buf), f)) > 0) out.append(buf, n);
          pclose(f);
        }
        size_t pos = 0;
        for (uint64_t q : need) {
          size_t e = out.find("\n\n", pos);
          std::string block = out.substr(pos, e == std::string::npos ? std::string::npos
                                                                      : e - pos);
          pos = e == std::string::npos ? out.size() : e + 2;
          // Lines alternate function / location (inlined frames first).
          std::string pick;
          size_t lp = 0;
          int ln = 0;
          while (lp < block.size()) {
            size_t le = block.find('\n', lp);
            std::string l = block.substr(lp, le == std::string::npos ? std::string::npos
                                                                      : le - lp);
            lp = le == std::string::npos ? block.size() : le + 1;
            if (ln++ % 2 == 0 && pick.empty() && l.find("draco::") != std::string::npos)
              pick = l;
          }
          cache[q] = pick;
        }
        it = cache.find(pc);
        if (it == cache.end()) continue;
      }
      if (!it->second.empty()) {
        const std::string &fr = it->second;
        // Drop the parameter list (keeps signatures short and stable).
        int depth = 0;
        for (size_t i = 0; i < fr.size(); ++i) {
          if (fr[i] == '<') ++depth;
          if (fr[i] == '>') --depth;
          if (fr[i] == '(' && depth == 0) return fr.substr(0, i);
        }
        return fr;
      }
    }
    return "";
  };
  std::string cls;
  size_t p;
  if ((p = log.find("ERROR: AddressSanitizer: ")) != std::string::npos) {
    size_t s = p + strlen("ERROR: AddressSanitizer: ");
    size_t e = log.find_first_of(" \n", s);
    cls = "asan:" + log.substr(s, e - s);
    *sig = cls + "@" + first_draco_frame(p);
  } else if ((p = log.find("runtime error: ")) != std::string::npos) {
    size_t s = p + strlen("runtime error: ");
    size_t e = log.find('\n', s);
    std::string msg = log.substr(s, e - s);
    // Strip concrete numbers so that the signature is stable.
    std::string norm;
    // Hexadecimal numbers (addresses) first, then decimal ones.
    for (size_t i = 0; i < msg.size(); ++i) {
      if (msg[i] == '0' && i + 1 < msg.size() && msg[i + 1] == 'x') {
        size_t j = i + 2;
        while (j < msg.size() && isxdigit(static_cast<unsigned char>(msg[j]))) ++j;
        norm += "0x#";
        i = j - 1;
      } else if (isdigit(static_cast<unsigned char>(msg[i]))) {
        if (norm.empty() || norm.back() != '#') norm += '#';
      } else {
        norm += msg[i];
      }
    }
    // Source position precedes "runtime error".
    size_t ls = log.rfind('\n', p);
    std::string pos = log.substr(ls == std::string::npos ? 0 : ls + 1,
                                 p - (ls == std::string::npos ? 0 : ls + 1));
    size_t sl = pos.rfind('/');
    if (sl != std::string::npos) pos = pos.substr(sl + 1);
    std::string fr = first_draco_frame(p);
    cls = "ubsan";
    *sig = "ubsan:" + norm.substr(0, 80) + "@" + (fr.empty() ? pos : fr);
  } else if ((p = log.find("Assertion `")) != std::string::npos) {
    size_t ls = log.rfind('\n', p);
    size_t e = log.find('\n', p);
    std::string line = log.substr(ls == std::string::npos ? 0 : ls + 1,
                                  e - (ls == std::string::npos ? 0 : ls + 1));
    // "<prog>: <file>:<line>: <function>: Assertion `expr' failed."
    size_t a = line.find(": ");
    std::string rest = a == std::string::npos ? line : line.substr(a + 2);
    // Keep file and expression; drop the line number (unstable across edits)
    // and the function signature (template arguments vary per instantiation).
    std::string norm;
    size_t c1 = rest.find(':');
    std::string file = c1 == std::string::npos ? rest : rest.substr(0, c1);
    size_t sl = file.rfind('/');
    if (sl != std::string::npos) file = file.substr(sl + 1);
    size_t ex = rest.find("Assertion `");
    std::string expr = ex == std::string::npos ? "" : rest.substr(ex + 11);
    size_t q = expr.rfind("' failed");
    if (q != std::string::npos) expr = expr.substr(0, q);
    norm = file + "|" + expr;
    cls = "assert";
    *sig = "assert:" + norm;
  } else if (log.find("TOLERATED_TERMINATE") != std::string::npos) {
    cls = "tolerated_terminate";
    *sig = cls;
  } else if (log.find("terminate called") != std::string::npos ||
             log.find("SIM_TERMINATE") != std::string::npos) {
    cls = "terminate";
    *sig = "terminate@" + first_draco_frame(0);
  } else if (d.wallclock) {
    cls = "wallclock";
    *sig = cls;
  } else if (d.signal) {
    cls = "signal:" + std::to_string(d.signal);
    *sig = cls;
  } else {
    cls = "exit";
    *sig = "exit:" + std::to_string(d.exit_code);
  }
  return cls;
}


}  // namespace sim
