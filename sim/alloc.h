// Simulated allocator seam: replacement global operator new/delete with real
// malloc behind it. Owns size accounting, the C18 bound, the per-call memory
// budget (simulated bad_alloc), seeded junk fill / padding / quarantine (C06)
// and a yield callback (C19).
#ifndef VERIF_SIM_ALLOC_H_
#define VERIF_SIM_ALLOC_H_

#include <cstddef>
#include <cstdint>

namespace sim {

struct AllocBig {
  uint64_t size;
  uint64_t step;
  uint64_t u_at;  // U (bound base) at the time of the request
};

struct AllocStats {
  uint64_t count = 0;
  uint64_t bytes = 0;
  uint64_t live = 0;
  uint64_t peak = 0;
  uint64_t largest = 0;
  // Largest ratios seen, for calibration of the C18 constants.
  uint64_t peak_u = 0;     // U when the peak was reached
  uint64_t largest_u = 0;  // U when the largest request was made
  // Refusals.
  uint32_t refused_inside = 0;   // above budget, inside the C18 bound
  uint32_t refused_outside = 0;  // outside the C18 bound (single or peak)
  uint64_t viol_size = 0;        // request that broke the bound
  uint64_t viol_u = 0;
  uint64_t viol_live = 0;
  int viol_kind = 0;  // 1 = single request, 2 = peak
  uint64_t viol_step = 0;
  void *viol_bt[16];
  int viol_nbt = 0;
  AllocBig top[8];
  int ntop = 0;
};

struct AllocConfig {
  bool active = false;        // accounting on
  uint64_t budget = 0;        // per-call memory budget; 0 = unlimited
  bool bound = false;         // evaluate the C18 bound
  uint64_t a1 = 0, k1 = 0;    // single request <= a1 + k1*U
  uint64_t a2 = 0, k2 = 0;    // live peak     <= a2 + k2*U
  uint64_t input_len = 0;     // stream length, part of U
  // Perturbation (C06).
  bool perturb = false;
  int fill_mode = 0;          // 0 prng, 1 0x00, 2 0xFF, 3 0xA5
  uint64_t env_seed = 0;
  bool quarantine = false;
  bool pad = true;            // seeded front padding (perturb mode)
  bool descending = false;    // serve requests from an arena at DEscending
                              // addresses (flips the relative order of objects
                              // allocated one after the other)
  bool ascending = false;     // the same arena, ASCENDING addresses: the
                              // simulator owns the layout instead of malloc
                              // (whose relative order depends on what the
                              // process allocated before, e.g. argv lengths)
};

// True when the build has no AddressSanitizer: then every environment of the
// env engine uses the arena (with ASan the sanitizer's own allocator is kept for
// two environments in three, for its redzones; its layout is size-class based
// and does not depend on the process history the way glibc's does).
bool AllocArenaEverywhere();

// Start/stop a measured call. Begin resets stats and declared counts.
void AllocBegin(const AllocConfig &cfg);
// Ends accounting; frees every block allocated since Begin that is still live
// if |free_leftovers| (used after an exception/longjmp abandoned the call).
void AllocEnd(bool free_leftovers);
const AllocStats &AllocGetStats();
uint64_t AllocCurrentU();
void AllocSetInputLen(uint64_t len);

// Declared counts reported by the decoder hook (kinds as in verif_hooks.h).
void AllocDeclare(int kind, uint64_t n);
void AllocGetDeclared(uint64_t out[4]);

// Visit every live block allocated since AllocBegin (for state snapshots).
typedef void (*AllocVisitFn)(void *ctx, const void *ptr, size_t size);
void AllocVisitLive(AllocVisitFn fn, void *ctx);

// Yield hook for the scheduler (called before every new/delete when set).
extern void (*g_alloc_yield)(int kind);

// Stateless cap for multi-threaded engines: requests above it are refused
// with bad_alloc whatever else is configured (0 = off).
void AllocSetHardCap(uint64_t bytes);

// Forgets everything placed in the descending arena (call between plans, when
// no object allocated from it is alive any more).
void AllocArenaReset();

// Flush the quarantine (perturb mode).
void AllocFlushQuarantine();

}  // namespace sim

#endif  // VERIF_SIM_ALLOC_H_
