// Fault catalogue of the simulated medium (storage / transport vocabulary ->
// concrete byte operations) and the Byzantine-writer tamper point.
//
// All offsets / lengths are interpreted modulo the current stream length, so
// removing one op from a plan never invalidates another (needed by ddmin).
#ifndef VERIF_SIM_FAULTS_H_
#define VERIF_SIM_FAULTS_H_

#include <cstdint>
#include <string>
#include <vector>

#include "common.h"

namespace sim {

enum FaultKind {
  F_TRUNC = 0,   // a = new length
  F_SETBYTE,     // a = off, b = pattern (0..13) or 14 with c = explicit value
  F_SET32,       // a = off, b = pattern (0..10) or 11 with c = explicit value
  F_VARINT,      // a = off, b = pattern (0..10, 11 = overlong), c = mode (0 in place, 1 shift)
  F_ZERO,        // a = off, b = len
  F_DUP,         // a = off, b = len
  F_DROP,        // a = off, b = len
  F_SWAP,        // a = off1, b = off2, c = len
  F_SPLICE,      // a = off, b = index of the other substrate (src bytes held)
  F_HEADER,      // a = major, b = minor, c = type, d = method, e = flags (-1 keep)
  F_APPEND,      // a = n, b = seed
  F_TAMPER,      // a = event index, b = variant (applied at encode time)
  F_FLIPBIT,     // a = bit offset
  F_BYZ,         // a = instance seed, b = mode: the whole stream is replaced by
                 // an instance of the Byzantine Edgebreaker writer (byz.cc)
  F_NUM_KINDS
};

const char *FaultKindName(int k);
int FaultKindFromName(const std::string &s);

struct FaultOp {
  int kind = 0;
  int64_t a = 0, b = 0, c = 0, d = 0, e = 0;
  std::vector<uint8_t> src;  // F_SPLICE: bytes of the other stream
  Json ToJson() const;
  static FaultOp FromJson(const Json &j);
};

// Applies all byte-level ops in order (F_TAMPER ops are ignored here).
// Returns the number of ops that changed the bytes.
int ApplyFaults(const std::vector<FaultOp> &ops, std::vector<uint8_t> *bytes);

// Number of single-site byte faults enumerated for a stream of |len| bytes and
// the j-th of them. Order: truncations, setbyte, set32, varint, header.
struct EnumCounts {
  uint64_t trunc = 0, setbyte = 0, set32 = 0, varint = 0, header = 0;
  uint64_t total() const { return trunc + setbyte + set32 + varint + header; }
};
EnumCounts EnumCount(size_t len);
FaultOp EnumOp(size_t len, uint64_t j);

// Seeded multi-site plan (swarm style: each plan enables a random subset of
// kinds). |others| are the streams available for splicing.
std::vector<FaultOp> RandomFaultPlan(
    Rng rng, size_t len, const std::vector<const std::vector<uint8_t> *> &others);

// ------------------------------------------------------------ tamper -----
struct TamperEvent {
  int site;
  int nbits;
  uint64_t value;
};

// Counting mode: records every event of an encode. Tamper mode: replaces the
// value of event |event| according to |variant|.
void TamperBeginCount(std::vector<TamperEvent> *log);
void TamperBeginApply(int64_t event, int variant);
// Returns true if the targeted event was seen and its value actually changed.
bool TamperEnd();
constexpr int kTamperVariants = 4;

}  // namespace sim

#endif  // VERIF_SIM_FAULTS_H_
