// Canaries of the chan/env engines: harness-side functions compiled with the
// same instrumentation as libdraco (sanitizers + edge counting), run through
// the same seams as a decoder call. Positive canaries must be reported by
// their oracle; negative canaries must stay silent. A canary that misbehaves
// means the machinery is broken (exit 2), e.g. a build that lost its
// sanitizer flags or a watchdog that became unsound.
#include <cstdint>
#include <cstdlib>
#include <cstring>
#include <new>
#include <vector>

extern "C" void draco_verif_declare(int kind, uint64_t n);

namespace {
volatile uint64_t g_sink;
}

extern "C" {

// 1. Reads one element past a heap block.
int sim_canary_heap_overflow(int n) {
  std::vector<int> v(static_cast<size_t>(n), 7);
  const int *p = v.data();
  volatile int idx = n;  // one past the end
  g_sink = static_cast<uint64_t>(p[idx]);
  return static_cast<int>(g_sink);
}

// 2. Asks for 1 GiB with nothing declared behind it.
int sim_canary_unjustified_alloc() {
  // A direct call of the allocation function (a new-expression may be elided).
  void *p = ::operator new(1ull << 30);
  g_sink = reinterpret_cast<uintptr_t>(p);
  ::operator delete(p);
  return 1;
}

// 3. A loop whose complete state recurs: walks a 3-cycle forever.
int sim_canary_stable_loop() {
  int next[3] = {1, 2, 0};
  volatile int c = 0;
  while (c != 7) c = next[c];
  return c;
}

// 4. Negative: a counting loop of 10^10 iterations is finite; it must end as
// "undecided", never as non-termination.
int sim_canary_long_finite_loop() {
  volatile uint64_t i = 0;
  for (uint64_t k = 0; k < 10000000000ull; ++k) i = i + 1;
  g_sink = i;
  return 1;
}

// 5. Negative: 512 MiB requested right after a matching declaration is the
// abnormal exit C02 tolerates and inside the C18 bound.
int sim_canary_declared_alloc() {
  draco_verif_declare(0, 128ull << 20);  // 128 Mi points
  draco_verif_declare(3, 4);             // 4 bytes per point
  void *p = ::operator new(512ull << 20);
  g_sink = reinterpret_cast<uintptr_t>(p);
  ::operator delete(p);
  return 1;
}

// 6. Returns a value read from uninitialised heap memory (C06 canary).
uint64_t sim_canary_uninit_read() {
  uint64_t *p = new uint64_t[64];
  uint64_t s = 0;
  for (int i = 0; i < 64; ++i) s = s * 31 + p[i];
  delete[] p;
  return s;
}
}
