// Byzantine Edgebreaker writer: a seeded generator of small, WELL-FORMED but
// semantically arbitrary Edgebreaker streams (standard traversal coding,
// bitstream 2.2). Every field is syntactically what the decoder expects -
// varints, size-prefixed bit sequences, rANS-coded bit blocks written with the
// library's own primitives - but the traversal symbols, topology split events,
// start-face and seam bits and the declared counts are chosen freely (biased
// towards mutual consistency), i.e. streams no encoder would write. They are
// substrates of the chan engine like any other (Workload::legacy == 5) and meet
// the medium's faults on top.
#include <algorithm>
#include <string>
#include <vector>

#include "common.h"
#include "draco/compression/bit_coders/rans_bit_encoder.h"
#include "draco/core/encoder_buffer.h"
#include "draco/core/varint_encoding.h"
#include "work.h"

namespace sim {

namespace {

enum { SYM_C = 0, SYM_S = 1, SYM_L = 3, SYM_R = 5, SYM_E = 7 };

struct ByzSplit {
  uint32_t source = 0, split = 0, edge = 0;
};

struct ByzSpec {
  std::vector<uint32_t> symbols;  // in stream (= decoding) order
  uint32_t num_vertices = 0, num_faces = 0, num_split_symbols = 0;
  std::vector<ByzSplit> splits;
  std::vector<int> start_faces;
  int num_attribute_data = 0;
  std::vector<int> seams;
  int att_decoders = 0;  // 0 none, 1 position, 2 position + corner attribute
  int pos_components = 3;
};

void WriteSpec(const ByzSpec &s, draco::EncoderBuffer *out) {
  out->Encode("DRACO", 5);
  out->Encode(static_cast<uint8_t>(2));
  out->Encode(static_cast<uint8_t>(2));
  out->Encode(static_cast<uint8_t>(1));   // TRIANGULAR_MESH
  out->Encode(static_cast<uint8_t>(1));   // MESH_EDGEBREAKER_ENCODING
  out->Encode(static_cast<uint16_t>(0));  // flags
  out->Encode(static_cast<uint8_t>(0));   // standard traversal coding
  draco::EncodeVarint(s.num_vertices, out);
  draco::EncodeVarint(s.num_faces, out);
  out->Encode(static_cast<uint8_t>(s.num_attribute_data));
  draco::EncodeVarint(static_cast<uint32_t>(s.symbols.size()), out);
  draco::EncodeVarint(s.num_split_symbols, out);
  // Topology split events (>= 2.2 layout).
  draco::EncodeVarint(static_cast<uint32_t>(s.splits.size()), out);
  uint32_t last_source = 0;
  for (const ByzSplit &e : s.splits) {
    draco::EncodeVarint(e.source - last_source, out);
    draco::EncodeVarint(e.source - e.split, out);
    last_source = e.source;
  }
  if (!s.splits.empty()) {
    out->StartBitEncoding(static_cast<int64_t>(s.splits.size()), false);
    for (const ByzSplit &e : s.splits) out->EncodeLeastSignificantBits32(1, e.edge & 1);
    out->EndBitEncoding();
  }
  // Traversal symbols: 1 bit for C, 3 bits otherwise, size-prefixed.
  out->StartBitEncoding(static_cast<int64_t>(s.symbols.size()) * 3 + 8, true);
  for (uint32_t sym : s.symbols)
    out->EncodeLeastSignificantBits32(sym == SYM_C ? 1 : 3, sym);
  out->EndBitEncoding();
  {
    draco::RAnsBitEncoder enc;
    enc.StartEncoding();
    for (int b : s.start_faces) enc.EncodeBit(b != 0);
    enc.EndEncoding(out);
  }
  for (int a = 0; a < s.num_attribute_data; ++a) {
    draco::RAnsBitEncoder enc;
    enc.StartEncoding();
    for (int b : s.seams) enc.EncodeBit(b != 0);
    enc.EndEncoding(out);
  }
  // Attribute decoders. Values use the generic (verbatim) sequential decoder,
  // so the data is just enough zero-ish bytes whatever the point count becomes.
  out->Encode(static_cast<uint8_t>(s.att_decoders));
  for (int d = 0; d < s.att_decoders; ++d) {
    out->Encode(static_cast<int8_t>(d == 0 ? -1 : 0));  // att_data_id
    out->Encode(static_cast<uint8_t>(d == 0 ? 0 : 1));  // vertex / corner
    out->Encode(static_cast<uint8_t>(0));               // depth-first traversal
  }
  for (int d = 0; d < s.att_decoders; ++d) {
    draco::EncodeVarint(static_cast<uint32_t>(1), out);  // one attribute
    if (d == 0) {
      out->Encode(static_cast<uint8_t>(0));  // POSITION
      out->Encode(static_cast<uint8_t>(9));  // DT_FLOAT32
      out->Encode(static_cast<uint8_t>(s.pos_components));
    } else {
      out->Encode(static_cast<uint8_t>(4));  // GENERIC
      out->Encode(static_cast<uint8_t>(5));  // DT_INT32
      out->Encode(static_cast<uint8_t>(1));
    }
    out->Encode(static_cast<uint8_t>(0));                // normalized
    draco::EncodeVarint(static_cast<uint32_t>(d), out);  // unique id
    out->Encode(static_cast<uint8_t>(0));  // SEQUENTIAL_ATTRIBUTE_ENCODER_GENERIC
  }
  for (int d = 0; d < s.att_decoders; ++d) {
    const size_t n = (static_cast<size_t>(s.num_faces) * 3 + 8) * 16;
    for (size_t i = 0; i < n; ++i) out->Encode(static_cast<uint8_t>(i * 7 + d));
  }
}

ByzSpec GenerateSpec(uint64_t seed) {
  Rng r(mix64(seed, 0xb12a));
  ByzSpec s;
  const int n = static_cast<int>(r.Chance(2, 3) ? r.Range(1, 6) : r.Range(4, 14));
  int depth = 0, verts = 0, merges = 0, ends = 0;
  for (int i = 0; i < n; ++i) {
    uint32_t sym;
    if (depth == 0) {
      sym = SYM_E;
    } else {
      const uint64_t c = r.Below(10);
      sym = c < 3 ? SYM_C : (c < 5 ? SYM_R : (c < 7 ? SYM_L : (c < 8 ? SYM_E : SYM_S)));
    }
    // Rarely any symbol anywhere.
    if (r.Chance(1, 25)) {
      static const uint32_t all[] = {SYM_C, SYM_S, SYM_L, SYM_R, SYM_E};
      sym = all[r.Below(5)];
    }
    switch (sym) {
      case SYM_E:
        ++depth;
        ++ends;
        verts += 3;
        break;
      case SYM_R:
      case SYM_L:
        ++verts;
        break;
      case SYM_S:
        ++merges;
        if (depth > 1) --depth;
        break;
      default:
        break;
    }
    s.symbols.push_back(sym);
  }
  // Topology split events: usually one per S that cannot use the stack, plus
  // arbitrary ones.
  int nsplits = merges > 0 && r.Chance(2, 3) ? static_cast<int>(r.Range(1, merges)) : 0;
  if (r.Chance(1, 6)) nsplits += static_cast<int>(r.Range(1, 2));
  for (int i = 0; i < nsplits; ++i) {
    ByzSplit e;
    e.source = static_cast<uint32_t>(r.Below(static_cast<uint64_t>(n)));
    e.split = static_cast<uint32_t>(r.Below(static_cast<uint64_t>(e.source) + 1));
    e.edge = static_cast<uint32_t>(r.Below(2));
    s.splits.push_back(e);
  }
  std::sort(s.splits.begin(), s.splits.end(),
            [](const ByzSplit &a, const ByzSplit &b) { return a.source < b.source; });
  s.num_split_symbols = r.Chance(3, 4) ? static_cast<uint32_t>(nsplits)
                                       : static_cast<uint32_t>(r.Below(3));
  int interior = 0;
  for (int i = 0; i < ends + 2; ++i) {
    const int b = r.Chance(1, 5);
    s.start_faces.push_back(b);
    if (b && i < ends) ++interior;
  }
  s.num_faces = static_cast<uint32_t>(n + (r.Chance(3, 4) ? interior : 0));
  int v = verts - merges;
  if (v < 3) v = 3;
  const uint64_t j = r.Below(8);
  if (j == 0 && v > 3) --v;
  if (j == 1) ++v;
  if (j == 2) v = static_cast<int>(r.Range(3, 3 * n + 2));
  s.num_vertices = static_cast<uint32_t>(v);
  s.num_attribute_data = r.Chance(1, 3) ? 1 : 0;
  for (uint32_t i = 0; i < s.num_faces * 3 + 8; ++i) s.seams.push_back(r.Chance(1, 3));
  const uint64_t a = r.Below(6);
  s.att_decoders = a < 2 ? 0 : (a < 5 || !s.num_attribute_data ? 1 : 2);
  s.pos_components = r.Chance(1, 10) ? static_cast<int>(r.Range(1, 4)) : 3;
  return s;
}

// Small-scope instances: at most five symbols, at most two split events, every
// count within two of its estimate. Sampled uniformly enough that every shape
// of this small space turns up within some ten thousand instances.
ByzSpec GenerateTinySpec(uint64_t seed) {
  Rng r(mix64(seed, 0x71e7));
  ByzSpec s;
  const int n = static_cast<int>(r.Range(1, 5));
  static const uint32_t all[] = {SYM_C, SYM_S, SYM_L, SYM_R, SYM_E};
  int verts = 0, merges = 0, ends = 0;
  for (int i = 0; i < n; ++i) {
    const uint32_t sym = i == 0 && r.Chance(9, 10) ? SYM_E : all[r.Below(5)];
    if (sym == SYM_E) {
      ++ends;
      verts += 3;
    } else if (sym == SYM_R || sym == SYM_L) {
      ++verts;
    } else if (sym == SYM_S) {
      ++merges;
    }
    s.symbols.push_back(sym);
  }
  const uint64_t ns = r.Below(20);
  const int nsplits = ns < 8 ? 0 : (ns < 17 ? 1 : 2);
  for (int i = 0; i < nsplits; ++i) {
    ByzSplit e;
    e.source = static_cast<uint32_t>(r.Below(static_cast<uint64_t>(n)));
    e.split = static_cast<uint32_t>(r.Below(static_cast<uint64_t>(e.source) + 1));
    e.edge = static_cast<uint32_t>(r.Below(2));
    s.splits.push_back(e);
  }
  std::sort(s.splits.begin(), s.splits.end(),
            [](const ByzSplit &a, const ByzSplit &b) { return a.source < b.source; });
  s.num_split_symbols = r.Chance(4, 5) ? static_cast<uint32_t>(nsplits)
                                       : static_cast<uint32_t>(r.Below(3));
  int interior = 0;
  for (int i = 0; i < 4; ++i) {
    const int b = r.Chance(1, 4);
    s.start_faces.push_back(b);
    if (b && i < ends) ++interior;
  }
  s.num_faces = static_cast<uint32_t>(n + (r.Chance(3, 4) ? interior : 0));
  int v = verts - merges + static_cast<int>(r.Below(5)) - 2;
  if (v < 3) v = 3;
  s.num_vertices = static_cast<uint32_t>(v);
  const uint64_t a = r.Below(10);
  s.att_decoders = a < 4 ? 0 : (a < 8 ? 1 : 2);
  s.num_attribute_data = s.att_decoders == 2 ? 1 : (r.Chance(1, 8) ? 1 : 0);
  for (uint32_t i = 0; i < s.num_faces * 3 + 8; ++i) s.seams.push_back(r.Chance(1, 3));
  return s;
}

// Stratified instances: |index| enumerates the structure (up to four symbols,
// at most one split event, two start-face bits, vertex count within two of the
// estimate, with / without attribute connectivity data and decoders) in mixed
// radix; on lap 0 (and on laps beyond 3*faces) the seam bits are drawn at
// random from |index| and the lap number; laps 1..3*faces set exactly one seam
// bit, at position lap-1.
ByzSpec GenerateEnumSpec(uint64_t index) {
  ByzSpec s;
  static const uint32_t all[] = {SYM_C, SYM_S, SYM_L, SYM_R, SYM_E};
  // Structures per length n: 5^(n-1) symbol tails x (1 + sum over source of
  // (source + 1) * 2) split choices x 4 start x 5 vertex x 2 attdata x 2 dec.
  uint64_t sizes[5] = {0, 0, 0, 0, 0};
  uint64_t total = 0;
  for (int n = 1; n <= 4; ++n) {
    uint64_t tails = 1;
    for (int i = 1; i < n; ++i) tails *= 5;
    uint64_t splits = 1;
    for (int src = 0; src < n; ++src) splits += static_cast<uint64_t>(src + 1) * 2;
    sizes[n] = tails * splits * 4 * 5 * 2 * 2;
    total += sizes[n];
  }
  const uint64_t lap = index / total;
  uint64_t k = index % total;
  int n = 1;
  while (k >= sizes[n]) {
    k -= sizes[n];
    ++n;
  }
  auto take = [&](uint64_t radix) {
    const uint64_t v = k % radix;
    k /= radix;
    return v;
  };
  const int dec = static_cast<int>(take(2));
  const int attdata = static_cast<int>(take(2));
  const int vdelta = static_cast<int>(take(5)) - 2;
  const int start = static_cast<int>(take(4));
  uint64_t nsplit_choices = 1;
  for (int src = 0; src < n; ++src) nsplit_choices += static_cast<uint64_t>(src + 1) * 2;
  uint64_t sc = take(nsplit_choices);
  if (sc > 0) {
    --sc;
    ByzSplit e;
    for (int src = 0; src < n; ++src) {
      const uint64_t here = static_cast<uint64_t>(src + 1) * 2;
      if (sc < here) {
        e.source = static_cast<uint32_t>(src);
        e.split = static_cast<uint32_t>(sc / 2);
        e.edge = static_cast<uint32_t>(sc % 2);
        break;
      }
      sc -= here;
    }
    s.splits.push_back(e);
  }
  s.num_split_symbols = static_cast<uint32_t>(s.splits.size());
  int verts = 3, merges = 0, ends = 1;
  s.symbols.push_back(SYM_E);
  for (int i = 1; i < n; ++i) {
    const uint32_t sym = all[take(5)];
    if (sym == SYM_E) {
      ++ends;
      verts += 3;
    } else if (sym == SYM_R || sym == SYM_L) {
      ++verts;
    } else if (sym == SYM_S) {
      ++merges;
    }
    s.symbols.push_back(sym);
  }
  int interior = 0;
  for (int i = 0; i < 2; ++i) {
    const int b = (start >> i) & 1;
    s.start_faces.push_back(b);
    if (b && i < ends) ++interior;
  }
  s.start_faces.push_back(0);
  s.start_faces.push_back(0);
  s.num_faces = static_cast<uint32_t>(n + interior);
  int v = verts - merges + vdelta;
  if (v < 3) v = 3;
  s.num_vertices = static_cast<uint32_t>(v);
  s.num_attribute_data = attdata;
  s.att_decoders = dec ? (attdata ? 2 : 1) : 0;
  Rng r(mix64(index, 0x5ea3 + lap));
  if (lap >= 1 && lap - 1 < s.num_faces * 3) {
    // Laps 1..3*faces: sparse seam patterns, walked in order - exactly one seam
    // bit set, at position lap-1 (a lone seam edge is what a decoder's
    // attribute-connectivity pass is least prepared for; random density 1/3
    // almost never produces it).
    for (uint32_t i = 0; i < s.num_faces * 3 + 8; ++i) s.seams.push_back(i == lap - 1 ? 1 : 0);
    return s;
  }
  for (uint32_t i = 0; i < s.num_faces * 3 + 8; ++i) s.seams.push_back(r.Chance(1, 3));
  return s;
}

}  // namespace

// Number of structures of the stratified space (one lap of GenerateEnumSpec).
uint64_t ByzEnumTotal() { return 239040; }

void ByzEdgebreakerBytes(uint64_t seed, int mode, std::vector<uint8_t> *out) {
  const ByzSpec s = mode == 2   ? GenerateEnumSpec(seed)
                    : mode == 1 ? GenerateTinySpec(seed)
                                : GenerateSpec(seed);
  draco::EncoderBuffer buf;
  WriteSpec(s, &buf);
  out->assign(reinterpret_cast<const uint8_t *>(buf.data()),
              reinterpret_cast<const uint8_t *>(buf.data()) + buf.size());
}

bool ByzEdgebreakerStream(const Workload &w, std::vector<uint8_t> *out,
                          std::string *err) {
  (void)err;
  ByzSpec s;
  if (w.gseed == 0) {
    // The reference instance (canary): a quad, E then R, one position decoder.
    s.symbols = {SYM_E, SYM_R};
    s.num_vertices = 4;
    s.num_faces = 2;
    s.start_faces = {0, 0};
    s.att_decoders = 1;
  } else {
    s = GenerateSpec(w.gseed);
  }
  draco::EncoderBuffer buf;
  WriteSpec(s, &buf);
  out->assign(reinterpret_cast<const uint8_t *>(buf.data()),
              reinterpret_cast<const uint8_t *>(buf.data()) + buf.size());
  return true;
}

}  // namespace sim
