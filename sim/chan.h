// Engine `chan`: writer (real encoders or a frozen legacy stream) -> simulated
// medium with a fault plan -> reader (real decoders) under the allocator seam,
// the step clock and the guard mapping. Serves C02, C03, C18.
#ifndef VERIF_SIM_CHAN_H_
#define VERIF_SIM_CHAN_H_

#include <string>
#include <vector>

#include "alloc.h"
#include "common.h"
#include "faults.h"
#include "work.h"

namespace sim {

enum Entry {
  E_TYPE = 0,       // Decoder::GetEncodedGeometryType
  E_MESH,           // DecodeMeshFromBuffer
  E_PC,             // DecodePointCloudFromBuffer
  E_TO_MESH,        // DecodeBufferToGeometry(Mesh*)
  E_TO_PC,          // DecodeBufferToGeometry(PointCloud*)
  E_SKIP,           // Decode*FromBuffer (by stream type) with skip transform
  E_ANIM,           // KeyframeAnimationDecoder::Decode
  E_TWICE,          // DecodeBufferToGeometry twice into the same geometry object
  E_NUM
};
const char *EntryName(int e);

enum Outcome {
  O_OK = 0,
  O_ERROR,             // error Status
  O_TOLERATED_ALLOC,   // bad_alloc after a refusal inside the C18 bound
  O_REFUSED_OUTSIDE,   // bad_alloc after a refusal outside the bound (C18's)
  O_EXCEPTION,         // any other exception
  O_UNDECIDED,         // step budget / lasso search exhausted
  O_RECURRENCE,        // exact state recurrence: proven non-termination
  O_NUM
};
const char *OutcomeName(int o);

struct CallConfig {
  uint64_t budget_bytes = 64ull << 20;
  uint64_t a1 = 8ull << 20, k1 = 2048, a2 = 24ull << 20, k2 = 2048;
  uint64_t step_budget = 200000000ull;
  bool lasso = true;
  uint64_t lasso_steps = 400000000ull;
  uint64_t lasso_visits = 1000000ull;
  int skip_mask = 0;   // attribute types to skip (bit t)
  bool mirrored = false;
  bool touch = true;   // C03: read every value
  bool perturb = false;  // allocator junk (used by env cross-checks)
  uint64_t env_seed = 0;
};

struct CallResult {
  int entry = 0;
  int outcome = 0;
  int status_code = 0;
  std::string status_msg;
  uint64_t digest = 0;
  uint64_t steps = 0;
  int64_t remaining = -1;  // DecoderBuffer::remaining_size() after ok decode
  AllocStats alloc;
  uint64_t declared[4] = {0, 0, 0, 0};
  std::string exception_what;
  std::string c03_clause, c03_detail;
  bool input_modified = false;
  uint64_t last_pc = 0;  // where the step budget ran out
  uint64_t alloc_pcs[12];
  int n_alloc_pcs = 0;
  uint64_t loop_pcs[12];
  int n_loop_pcs = 0;
  Json ToJson() const;
};

// Runs one entry point on |bytes| under all seams.
CallResult RunEntry(int entry, const std::vector<uint8_t> &bytes,
                    const CallConfig &cfg);

struct ChanOptions {
  std::string tier = "quick";
  uint64_t seed = 1;
  std::string repo = "/repo";
  std::string out_path;   // JSON summary
  std::string log_dir;
  int workers = 16;
  double budget_s = 0;
  uint64_t max_runs = 0;  // 0 = tier default
  std::string filter;     // property id whose candidates are reported ("" all)
  int max_candidates = 64;
  uint64_t sample_mod = 1;  // execute only run indices divisible by this
  bool hashlog = false;     // write (idx, event-log hash) pairs per worker
  uint64_t max_deaths = 0;  // 0 = pool default
};

int ChanBatch(const ChanOptions &opt);
// Executes the plans in a JSONL file, one result line per plan on |out|.
int ChanExec(const std::string &plans_path, const std::string &out_path,
             const std::string &repo, int workers, const std::string &log_dir);
// Runs the canaries (see canary_chan.cc); exit 0 iff all behave.
int ChanCanary(const ChanOptions &opt);
// Prints the plan of run |idx| of the batch described by |opt|.
int ChanPlanOf(const ChanOptions &opt, const std::string &idxs);

}  // namespace sim

#endif  // VERIF_SIM_CHAN_H_
