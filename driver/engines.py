"""Engines other than chan, setup and selfcheck."""
import json
import os
import time

import vdriver as V

SHRINKERS = {}


def setup():
    t0 = time.time()
    for v in ('asan', 'plain', 'tsi', 'dbg'):
        try:
            V.build(v)
        except V.MachineryFault as e:
            V.log('setup: %s' % e)
            return 2
        V.log('setup: built variant %s (%.0fs)' % (v, time.time() - t0))
    return 0


def selfcheck(tier, seed):
    V.log('selfcheck: not implemented yet')
    return 0


def check_engine(prop, tier, seed):
    V.log('engine for %s not implemented yet' % prop)
    return 2
