"""Engines other than chan (prim, env, sched), setup and selfcheck."""
import copy
import json
import os
import time

import vdriver as V


# ------------------------------------------------------------- shrinkers ----
def shrink_ops_plan(plan):
    """Generic: plans whose schedule/history is the list plan['ops']."""
    ops = plan.get('ops', [])
    n = len(ops)
    if n > 1:
        for lo, hi in ((0, n // 2), (n // 2, n)):
            q = copy.deepcopy(plan)
            q['ops'] = ops[:lo] + ops[hi:]
            yield q
        for i in range(n - 1, -1, -1):
            q = copy.deepcopy(plan)
            q['ops'] = ops[:i] + ops[i + 1:]
            yield q
    if plan.get('envs', 1) > 2:
        q = copy.deepcopy(plan)
        q['envs'] = 2
        yield q
    for i, op in enumerate(ops):
        if op.get('faults') and len(op['faults']) > 1:
            for k in range(len(op['faults'])):
                q = copy.deepcopy(plan)
                del q['ops'][i]['faults'][k]
                yield q
        if op.get('trail', 0) > 1:
            q = copy.deepcopy(plan)
            q['ops'][i]['trail'] = 1
            yield q
        if op.get('append'):
            q = copy.deepcopy(plan)
            q['ops'][i]['append'] = 0
            yield q
    for gi, g in enumerate(plan.get('geoms', [])):
        if g.get('n', 1) > 1:
            for nn in (1, g['n'] // 2):
                if 1 <= nn < g['n']:
                    q = copy.deepcopy(plan)
                    q['geoms'][gi]['n'] = nn
                    yield q
        if len(g.get('atts', [])) > 1:
            q = copy.deepcopy(plan)
            q['geoms'][gi]['atts'] = g['atts'][:-1]
            yield q
    if plan.get('corpus'):
        for i in range(len(plan['corpus'])):
            q = copy.deepcopy(plan)
            del q['corpus'][i]
            yield q
    # sched: fewer tasks / preemptions
    tasks = plan.get('tasks')
    if tasks and len(tasks) > 2:
        for i in range(len(tasks)):
            q = copy.deepcopy(plan)
            del q['tasks'][i]
            yield q
    sched = plan.get('schedule')
    if sched and len(sched) > 0:
        n = len(sched)
        for lo, hi in ((0, n // 2), (n // 2, n)):
            q = copy.deepcopy(plan)
            q['schedule'] = sched[:lo] + sched[hi:]
            yield q
        if n <= 24:
            for i in range(n):
                q = copy.deepcopy(plan)
                del q['schedule'][i]
                yield q


SHRINKERS = {'env': shrink_ops_plan, 'prim': shrink_ops_plan, 'sched': shrink_ops_plan}


# ----------------------------------------------------------------- setup ----
def setup():
    t0 = time.time()
    for v in ('asan', 'plain', 'tsi', 'dbg'):
        try:
            V.build(v)
        except V.MachineryFault as e:
            V.log('setup: %s' % e)
            return 2
        V.log('setup: built variant %s (%.0fs)' % (v, time.time() - t0))
    return 0


def selfcheck(tier, seed):
    """Proves the machinery before anything is believed: canaries of every seam
    on every build that can see them, and a determinism audit of >= 2000 runs
    per engine (same sampled runs twice: W=1 vs W=16, different processes, the
    second without ASLR; per-run event-log hashes diffed)."""
    out = V.fresh_dir(os.path.join(V.VERIF, 'out', 'selfcheck'))
    report = {}
    for v in ('asan', 'dbg', 'plain'):
        sim, _ = V.build(v)
        report['canaries-' + v] = V.run_canaries(sim, os.path.join(out, 'canary-' + v))
        V.log('selfcheck: canaries ok on build %s' % v)
    audits = [('chan', 'asan', 'quick', 331), ('env', 'asan', 'quick', 3),
              ('env', 'plain', 'quick', 3), ('prim', 'asan', 'quick', 1),
              ('sched', 'tsi', 'quick', 3)]
    for engine, variant, t, mod in audits:
        sim, _ = V.build(variant)
        n = V.determinism_audit(sim, engine, t, seed,
                                os.path.join(out, 'det-%s-%s' % (engine, variant)), mod)
        report['audit-%s-%s' % (engine, variant)] = n
        V.log('selfcheck: %s/%s deterministic over %d sampled runs' % (engine, variant, n))
    # The sched canaries (racy static reported, guarded initialiser silent).
    sim, _ = V.build('tsi')
    d = V.fresh_dir(os.path.join(out, 'sched-canary'))
    s = engine_batch(sim, 'sched', 'smoke', seed, d, 0)
    if s.get('canary_failures'):
        raise V.MachineryFault('sched canary misbehaved: ' + json.dumps(s['canary_failures']))
    report['sched-canaries'] = s.get('canaries')
    V.log('selfcheck: sched canaries ok')
    json.dump(report, open(os.path.join(out, 'report.json'), 'w'), indent=1)
    V.log('selfcheck: OK')
    return 0


# ------------------------------------------------------- generic engines ----
ENGINE_INFO = {
    'env': dict(
        rule='one evaluation = one codec call (encode or decode) inside an operation '
             'history executed under an environment (reference: fresh objects, '
             'unperturbed; environment 0: the history, unperturbed; environments '
             '1..: allocator junk fill 0xA5/0xFF/PRNG, seeded padding and '
             'quarantine, 192 KiB stack scribble, interposed clock/rand). A plan '
             'is non-trivial when at least one long-lived object is used by two '
             'or more operations (so that history can matter); distinct = '
             'distinct generated plans (indices) with that property.',
        assumptions=[
            'equality is demanded per build (asan -O1, plain -O2), not across builds',
            'the model of persistent option state is: setters accumulate until Reset; '
            'SetSkipAttributeTransform accumulates on a Decoder',
            'nothing is asserted about the output of a failed operation, only about '
            'the next successful one on the same objects',
            'nondeterminism from CPU instructions (rdrand) or std::random_device is '
            'not interposed'],
        components=dict(
            real=['Encoder, ExpertEncoder, Decoder, EncoderBuffer, DecoderBuffer',
                  'MeshEdgebreaker/MeshSequential/PointCloudSequential/'
                  'PointCloudKdTree Encoder and Decoder objects (reused)'],
            stubbed=['allocator policy (junk fill, padding, quarantine)',
                     'libc gettimeofday/clock_gettime/time/rand/random (answered '
                     'from the environment seed, counted)',
                     'stack residue (seeded scribble before every operation)'])),
    'prim': dict(
        rule='one evaluation = one write/read primitive operation (scalar, byte run, '
             'varint, bit region, rANS/adaptive/direct/folded/symbol bit coder block, '
             'symbol block) of a generated sequence on one EncoderBuffer, read back '
             'under one EOF placement. A plan is non-trivial when it mixes at least '
             'two op kinds; distinct = distinct generated plans.',
        assumptions=[
            'current-version readers only (pre-2.2 readers have no writer in the tree)',
            'the exhaustive 8/16-bit varint and zig-zag enumeration is plain input '
            'enumeration, labelled as such; the claim rests on interleavings and EOF'],
        components=dict(
            real=['EncoderBuffer, DecoderBuffer, Encode/DecodeVarint, RAnsBit*, '
                  'AdaptiveRAnsBit*, DirectBit*, FoldedBit32*, SymbolBit*, '
                  'Encode/DecodeSymbols'],
            stubbed=['the medium between writer and reader (EOF at every byte, bit '
                     'flips inside length-prefixed blocks)'])),
    'sched': dict(
        rule='one evaluation = one schedule: N tasks (real threads, one runnable at a '
             'time) each running its own operation sequence on its own objects, with '
             'the seeded scheduler choosing the next task at every preemption point '
             '(access to writable static storage, atomics, static-init guards, '
             'mutexes, operator new/delete, sampled function entries). Non-trivial = '
             'at least one preemption actually switched tasks; distinct = distinct '
             'hashes of the context-switch sequence.',
        assumptions=[
            'sequentially consistent scheduler: hardware memory-model effects are '
            'not explored',
            'races inside uninstrumented libraries are visible only through result '
            'cross-talk'],
        components=dict(
            real=['libdraco compiled with -fsanitize=thread code generation',
                  'real pthreads for tasks (thread-local storage behaves as in '
                  'production)'],
            stubbed=['thread scheduler (seeded baton, random walk / PCT)',
                     'TSan runtime (our implementation of the ABI: access log, '
                     'vector clocks)', 'operator new/delete (yield points)',
                     'libc functions with hidden state (strtok, rand, srand, random, '
                     'strerror, localtime, gmtime, setlocale): wrapped, each call is an '
                     'access to a stand-in object in static storage',
                     'process boundaries: every episode in a cold forked process, every '
                     'task additionally alone in its own fresh process (cold reference)'])),
}


def engine_batch(sim, engine, tier, seed, d, budget, extra=None, setarch=False):
    args = [engine, 'batch', '--tier', tier, '--seed', str(seed), '--out',
            os.path.join(d, 'sum.json'), '--logdir', d, '--workers',
            str(V.workers()), '--repo', V.REPO]
    if budget:
        args += ['--budget', str(budget)]
    if extra:
        args += extra
    r = V.run_sim(sim, args, timeout=max(7200, budget * 2 if budget else 0), setarch=setarch)
    if r.returncode != 0:
        raise V.MachineryFault('%s batch failed: %s' % (engine, (r.stdout + r.stderr)[-3000:]))
    return V.load_json(os.path.join(d, 'sum.json'))


def check_engine(prop, tier, seed):
    t0 = time.time()
    info = V.PROPS[prop]
    engine = info['engine']
    variants = info['thorough_variants' if tier == 'thorough' else 'variants']
    outdir = V.fresh_dir(os.path.join(V.VERIF, 'out', '%s-%s' % (prop, tier)))
    budget = V.env_int('VERIF_BUDGET_S', 900 if tier == 'thorough' else 0)
    sims = {}
    for v in variants:
        sims[v], _ = V.build(v)
    det_mod = {'env': (97 if tier == 'thorough' else 29),
               'prim': (211 if tier == 'thorough' else 101),
               'sched': (197 if tier == 'thorough' else 23)}[engine]
    canaries = {}
    if engine == 'env':
        for v in variants:
            canaries[v] = V.run_canaries(sims[v], os.path.join(outdir, 'canary-' + v))
    det_runs = {}
    audit_msgs = []
    for v in variants:
        # For the schedule and environment engines a failed audit is first
        # confronted with what the batch finds: a data race (sched) or a
        # dependence on addresses / memory content (env) in the library makes
        # executions differ between processes, and then that is the thing to
        # report. An audit failure that no gated violation explains stays a
        # machinery fault.
        n, msg = V.determinism_audit(sims[v], engine, tier, seed,
                                     os.path.join(outdir, 'det-' + v), det_mod,
                                     tolerate=True)
        det_runs[v] = n
        if msg:
            if engine not in ('sched', 'env'):
                raise V.MachineryFault(msg)
            audit_msgs.append(msg)
    all_viol, all_known, summaries = [], {}, []
    for v in variants:
        sim = sims[v]
        d = V.fresh_dir(os.path.join(outdir, 'batch-' + v))
        summary = engine_batch(sim, engine, tier, seed, d,
                               budget / len(variants) if budget else 0)
        summary['variant'] = v
        summaries.append(summary)
        mach = [c for c in summary['candidates'] if c.get('t') == 'machinery']
        if mach:
            raise V.MachineryFault('worker died outside a run: ' +
                                   json.dumps(mach[0])[:3000])
        if summary.get('canary_failures'):
            raise V.MachineryFault('canary misbehaved: ' +
                                   json.dumps(summary['canary_failures'])[:2000])
        cands = [V.normalise_candidate(sim, c) for c in summary['candidates']
                 if c.get('t') == 'cand' and c.get('prop') == prop]
        viol, known = V.process_candidates(prop, engine, sim, cands,
                                           os.path.join(outdir, 'gate-' + v), seed, tier)
        for x in viol:
            x['variant'] = v
            if x.get('replay'):
                doc = V.load_json(x['replay'])
                doc['variant'] = v
                json.dump(doc, open(x['replay'], 'w'), indent=1)
        all_viol += viol
        for k, n in known.items():
            all_known[k] = all_known.get(k, 0) + n
    explains = {'sched': ('data_race',),
                'env': ('environment_dependence', 'history_dependence',
                        'trailing_bytes_dependence', 'crash')}.get(engine, ())
    if audit_msgs and not [x for x in all_viol if x.get('cls') in explains]:
        raise V.MachineryFault(audit_msgs[0] + ' (and the batch found no violation '
                               'that would explain it)')
    main = summaries[0]
    ei = ENGINE_INFO[engine]
    wall = max(sum(s['wall_s'] for s in summaries), 1e-9)
    runs = sum(s['runs'] for s in summaries)
    cov = dict(
        evaluations=sum(s['calls'] for s in summaries),
        runs=runs,
        runs_per_hour=int(runs / wall * 3600),
        seeds=dict(first=0, last=main['total_planned'] - 1, count=main['runs'],
                   note='run i uses mix(VERIF_SEED, engine, i)'),
        distinct_nontrivial=main.get('distinct_nontrivial',
                                     main.get('plans_with_reuse', 0)),
        rule=ei['rule'],
        simulated_time='none: no timer, deadline or sleep on the claimed surface; '
                       'logical time is the operation / scheduling-step index',
        builds=[dict(variant=s['variant'], runs=s['runs'], calls=s['calls'],
                     wall_s=round(s['wall_s'], 2), deaths=s.get('deaths', 0))
                for s in summaries],
        determinism_audit_runs=det_runs,
        determinism_audit_notes=audit_msgs,
        seam_canaries=canaries,
        components=ei['components'],
        known_findings_hit=all_known,
        exhaustive=False,
    )
    for k in ('ops', 'envs', 'reused_object_ops', 'plans_with_reuse', 'fault_kinds',
              'probes', 'canaries', 'distinct_schedules', 'shared_static_accesses',
              'conflict_classes', 'preemption_points', 'context_switches',
              'accesses_instrumented', 'tasks_run', 'exhaustive_part', 'eof_placements',
              'yield_kinds', 'strategies', 'static_symbols', 'results_compared'):
        if k in main:
            cov[k] = main[k]
    samples = []
    for s in main.get('samples', [])[:4]:
        s = dict(s)
        s.pop('t', None)
        samples.append(s)
    cov['samples'] = samples or [dict(note='no sample recorded')]
    V.write_evidence(prop, tier, seed, info['level'], cov, time.time() - t0,
                     len(all_viol), ei['assumptions'])
    return V.finish(prop, all_viol, all_known)
