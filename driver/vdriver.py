import copy
import fnmatch
import hashlib
import json
import os
import shutil
import subprocess
import sys
import time

VERIF = os.path.dirname(os.path.dirname(os.path.abspath(__file__)))
REPO = os.environ.get('VERIF_REPO', '/repo')
SYMBOLIZER = '/usr/bin/llvm-symbolizer-14'

PROPS = {
    'C02': dict(engine='chan', level='fault_enumeration', variants=['asan'],
                thorough_variants=['asan', 'dbg']),
    # The un-sanitized build matters for C03: a stream whose acceptance involves
    # an out-of-bounds read inside the decoder dies under ASan (C02's business)
    # before a geometry is returned; without ASan it is accepted and judged here.
    'C03': dict(engine='chan', level='fault_enumeration', variants=['asan'],
                thorough_variants=['asan', 'plain']),
    'C18': dict(engine='chan', level='fault_enumeration', variants=['asan'],
                thorough_variants=['asan']),
    'C17': dict(engine='prim', level='exploration', variants=['asan'],
                thorough_variants=['asan']),
    'C06': dict(engine='env', level='exploration', variants=['asan', 'plain'],
                thorough_variants=['asan', 'plain']),
    'C19': dict(engine='sched', level='exploration', variants=['tsi'],
                thorough_variants=['tsi']),
}


class MachineryFault(Exception):
    pass


# Violation classes that are themselves a source of nondeterminism (racy code is
# UB; output that depends on addresses or stale memory differs between
# processes): the finding must replay, the event-log hash need not.
NONDET_CLASSES = ('data_race', 'environment_dependence')


def log(msg):
    print(msg, flush=True)


def env_int(name, default):
    v = os.environ.get(name)
    if v is None or v == '':
        return default
    try:
        return int(float(v))
    except ValueError:
        return default


def workers():
    return max(1, env_int('VERIF_WORKERS', min(16, os.cpu_count() or 16)))


def sim_env():
    e = dict(os.environ)
    e['ASAN_SYMBOLIZER_PATH'] = SYMBOLIZER
    e['UBSAN_SYMBOLIZER_PATH'] = SYMBOLIZER
    e.pop('ASAN_OPTIONS', None)
    e.pop('UBSAN_OPTIONS', None)
    return e


def build(variant):
    """Rebuilds libdraco (variant) from /repo's working tree and the simulator."""
    t0 = time.time()
    for target in ('lib', 'all'):
        r = subprocess.run(['make', '-s', '-j%d' % (os.cpu_count() or 16),
                            'VARIANT=' + variant, 'REPO=' + REPO, target],
                           cwd=VERIF, capture_output=True, text=True)
        if r.returncode != 0:
            sys.stderr.write(r.stdout[-4000:] + r.stderr[-4000:])
            raise MachineryFault('build of variant %s failed (%s)' % (variant, target))
    path = os.path.join(VERIF, 'build', variant, 'sim')
    if not os.path.exists(path):
        raise MachineryFault('no simulator binary for ' + variant)
    return path, time.time() - t0


def fresh_dir(path):
    if os.path.isdir(path):
        shutil.rmtree(path)
    os.makedirs(path)
    return path


def run_sim(sim, args, timeout=None, setarch=False):
    cmd = [sim] + args
    if setarch:
        cmd = ['setarch', 'x86_64', '-R'] + cmd
    r = subprocess.run(cmd, cwd=VERIF, env=sim_env(), capture_output=True,
                       text=True, timeout=timeout)
    return r


def load_json(path):
    with open(path) as f:
        return json.load(f)


def strip_templates(name):
    out = []
    depth = 0
    for ch in name:
        if ch == '<':
            depth += 1
        elif ch == '>':
            depth -= 1
        elif depth == 0:
            out.append(ch)
    s = ''.join(out)
    p = s.find('(')
    if p > 0:
        s = s[:p]
    return s.strip()


_sym_cache = {}


def symbolize(sim, pcs):
    """Returns, per pc, the list of function names (inlined frames first)."""
    need = [p for p in pcs if (sim, p) not in _sym_cache]
    if need:
        r = subprocess.run([SYMBOLIZER, '--obj=' + sim, '-f', '-C', '-s', '-i'] +
                           ['0x%x' % p for p in need], capture_output=True, text=True)
        blocks = r.stdout.strip('\n').split('\n\n')
        for p, b in zip(need, blocks):
            lines = b.split('\n')
            _sym_cache[(sim, p)] = [lines[i] for i in range(0, len(lines), 2)]
    return [_sym_cache.get((sim, p), ['??']) for p in pcs]


ALLOC_WRAPPER_HINTS = ('sim::', 'operator new', 'std::', '__gnu_cxx::', 'void std::',
                       'draco::IndexTypeVector', 'draco::DataBuffer::')


def alloc_site(sim, pcs):
    """First frame that is Draco's own logic (not a container / the seam)."""
    # Return addresses point after the call: use pc-1 for lookup.
    frames = symbolize(sim, [max(0, p - 1) for p in pcs])
    for fl in frames:
        for fn in fl:
            if 'draco::' in fn and not fn.startswith(ALLOC_WRAPPER_HINTS):
                return strip_templates(fn)
    for fl in frames:
        for fn in fl:
            if 'draco::' in fn:
                return strip_templates(fn)
    return 'unknown'


def normalise_candidate(sim, c):
    """Completes signatures that need symbolisation by the driver."""
    sig = c.get('sig', '')
    if sig.startswith('bt:'):
        pcs = [int(x, 16) for x in sig.split(':')[1:] if x]
        c['sig'] = 'alloc@' + alloc_site(sim, pcs)
    elif sig.startswith('loopbt:'):
        pcs = [int(x, 16) for x in sig.split(':')[1:] if x]
        c['sig'] = 'loop@' + alloc_site(sim, pcs)
    elif sig.startswith('pc:'):
        pc = int(sig[3:], 16)
        fr = symbolize(sim, [pc])[0]
        c['sig'] = 'loop@' + strip_templates(fr[-1] if fr else '??')
    return c


# ------------------------------------------------------------ known findings
def load_known():
    path = os.path.join(VERIF, 'known_findings.jsonl')
    out = []
    if os.path.exists(path):
        for line in open(path):
            line = line.strip()
            if not line or line.startswith('#'):
                continue
            out.append(json.loads(line))
    return out


def match_known(known, prop, sig):
    for k in known:
        if k.get('status') != 'open':
            continue
        if k.get('property') != prop:
            continue
        if fnmatch.fnmatchcase(sig, k.get('signature', '')):
            return k
    return None


# ------------------------------------------------------------------ plans ----
def exec_plans(sim, engine, plans, outdir, tag, nworkers=1, setarch=False):
    """Executes plans in fresh worker processes; returns the result objects."""
    os.makedirs(outdir, exist_ok=True)
    pf = os.path.join(outdir, tag + '.plans.jsonl')
    rf = os.path.join(outdir, tag + '.results.jsonl')
    with open(pf, 'w') as f:
        for p in plans:
            f.write(json.dumps(p) + '\n')
    if os.path.exists(rf):
        os.unlink(rf)
    logdir = fresh_dir(os.path.join(outdir, tag + '.logs'))
    r = run_sim(sim, [engine, 'exec', '--plans', pf, '--out', rf, '--workers',
                      str(nworkers), '--logdir', logdir, '--repo', REPO],
                timeout=3600, setarch=setarch)
    if r.returncode != 0 or not os.path.exists(rf):
        raise MachineryFault('exec failed: rc=%s %s' % (r.returncode, r.stderr[-2000:]))
    res = [json.loads(l) for l in open(rf) if l.strip()]
    for x in res:
        for c in x.get('cands', []):
            normalise_candidate(sim, c)
    return res


def has_violation(result, prop, cls, sig):
    for c in result.get('cands', []):
        if c.get('prop') == prop and c.get('class') == cls and c.get('sig') == sig:
            return True
    return False


# Engine specific plan simplifications (each yields strictly simpler plans).
def shrink_steps_chan(plan, failing_entry_bit):
    faults = plan.get('faults', [])
    # 1. fewer entry points
    if failing_entry_bit is not None and plan.get('entries') != failing_entry_bit:
        q = copy.deepcopy(plan)
        q['entries'] = failing_entry_bit
        yield q
    # 2. drop fault ops (halves first, then singles)
    n = len(faults)
    if n > 1:
        for lo, hi in ((0, n // 2), (n // 2, n)):
            q = copy.deepcopy(plan)
            q['faults'] = faults[:lo] + faults[hi:]
            yield q
        for i in range(n):
            q = copy.deepcopy(plan)
            q['faults'] = faults[:i] + faults[i + 1:]
            yield q
    # 3. simpler placement
    if plan.get('mirror'):
        q = copy.deepcopy(plan)
        q['mirror'] = 0
        yield q
    # 4. simpler arguments
    for i, op in enumerate(faults):
        k = op.get('k')
        if k in ('zero', 'dup', 'drop') and op.get('b', 1) > 1:
            q = copy.deepcopy(plan)
            q['faults'][i]['b'] = max(1, op['b'] // 2)
            yield q
        if k == 'swap' and op.get('c', 1) > 1:
            q = copy.deepcopy(plan)
            q['faults'][i]['c'] = max(1, op['c'] // 2)
            yield q
        if k == 'append' and op.get('a', 1) > 1:
            q = copy.deepcopy(plan)
            q['faults'][i]['a'] = 1
            yield q
        if k == 'splice':
            q = copy.deepcopy(plan)
            q['faults'][i] = {'k': 'trunc', 'a': op.get('a', 0)}
            yield q
    # 5. smaller workload
    sub = plan.get('sub', {})
    if sub.get('kind') == 'gen' and not any(op.get('k') == 'tamper' for op in faults):
        w = sub['w']
        if w.get('n', 1) > 1:
            for nn in (1, w['n'] // 2, w['n'] - 1):
                if 1 <= nn < w['n']:
                    q = copy.deepcopy(plan)
                    q['sub']['w']['n'] = nn
                    yield q
        if len(w.get('atts', [])) > 1:
            for i in range(1, len(w['atts'])):
                q = copy.deepcopy(plan)
                del q['sub']['w']['atts'][i]
                yield q
        if w.get('meta'):
            q = copy.deepcopy(plan)
            q['sub']['w']['meta'] = 0
            yield q


SHRINKERS = {'chan': shrink_steps_chan}

ENTRY_NAMES = ["GetEncodedGeometryType", "DecodeMeshFromBuffer",
               "DecodePointCloudFromBuffer", "DecodeBufferToGeometry(Mesh)",
               "DecodeBufferToGeometry(PointCloud)",
               "Decode*FromBuffer+SkipAttributeTransform",
               "KeyframeAnimationDecoder::Decode",
               "DecodeBufferToGeometry x2 (same object)"]


def minimise(sim, engine, plan, prop, cls, sig, outdir, entry_name=None, budget=400):
    shr = SHRINKERS.get(engine)
    if shr is None:
        from engines import SHRINKERS as EXTRA
        shr = EXTRA.get(engine)
    used = 0
    cur = plan
    bit = None
    if engine == 'chan' and entry_name in ENTRY_NAMES:
        bit = 1 << ENTRY_NAMES.index(entry_name)
    improved = True
    rounds = 0
    while improved and used < budget:
        improved = False
        rounds += 1
        cands = []
        seen = set()
        for q in (shr(cur, bit) if engine == 'chan' else shr(cur)):
            key = json.dumps(q, sort_keys=True)
            if key in seen or key == json.dumps(cur, sort_keys=True):
                continue
            seen.add(key)
            cands.append(q)
            if len(cands) >= 24:
                break
        if not cands:
            break
        cands = cands[:max(1, budget - used)]
        res = exec_plans(sim, engine, cands, outdir, 'shrink%d' % rounds,
                         nworkers=min(8, len(cands)))
        used += len(cands)
        for q, r in zip(cands, res):
            if has_violation(r, prop, cls, sig):
                cur = q
                improved = True
                break
    return cur, used


def plan_complexity(plan):
    return len(json.dumps(plan))


def process_candidates(prop, engine, sim, cands, outdir, seed, tier, max_new=4,
                       variant=None, tolerate_unreproducible=False):
    """Known-finding matching, gating, minimisation, replay. Returns
    (violations, known_hits, messages)."""
    known = load_known()
    groups = {}
    for c in cands:
        groups.setdefault((c.get('class'), c.get('sig')), []).append(c)
    violations = []
    known_hits = {}
    race_confirmed = False
    deferred = []
    # Data races first: they explain nondeterminism of anything that follows.
    order = sorted(groups.items(),
                   key=lambda kv: (0 if kv[0][0] == 'data_race' else 1, str(kv[0])))
    for (cls, sig), cs in order:
        k = match_known(known, prop, sig)
        if k is not None:
            known_hits[sig] = known_hits.get(sig, 0) + len(cs)
            continue
        if len(violations) >= max_new:
            violations.append(dict(sig=sig, cls=cls, replay=None,
                                   note='not minimised (limit of %d per run)' % max_new))
            continue
        # Prefer the smallest witness.
        cs.sort(key=lambda c: plan_complexity(c.get('plan', {})))
        # Gate: same plan, two fresh processes (one without ASLR). A witness
        # whose symptom hangs on what the process did before (e.g. which of two
        # objects malloc happened to place lower) need not replay in a fresh
        # process: up to four further witnesses of the same signature are tried
        # before the candidate is declared irreproducible.
        for attempt, c in enumerate(cs[:5]):
            plan = copy.deepcopy(c['plan'])
            frozen_bytes = plan.pop('bytes', None)
            plan.pop('frozen', None)
            plan['tier'] = tier
            r1 = exec_plans(sim, engine, [plan], outdir, 'gate1')[0]
            r2 = exec_plans(sim, engine, [plan], outdir, 'gate2', setarch=True)[0]
            ok1 = has_violation(r1, prop, cls, sig)
            ok2 = has_violation(r2, prop, cls, sig)
            # A data race is itself a source of nondeterminism (racy code is
            # UB): the finding must reproduce, the result hash need not.
            hash_ok = r1.get('hash') == r2.get('hash') or cls in NONDET_CLASSES
            if ok1 and ok2 and hash_ok:
                break
        if race_confirmed and not (ok1 and ok2 and hash_ok):
            # A consequence of the race already reported (racy code is UB, its
            # symptoms need not replay): listed, not gated.
            violations.append(dict(sig=sig, cls=cls, replay=None,
                                   note='symptom of the reported data race; does not '
                                        'replay identically'))
            continue
        if tolerate_unreproducible and not (ok1 and ok2 and hash_ok):
            # Un-sanitized build while the sanitized build reports memory errors
            # for the same tree: what an out-of-bounds read returns there depends
            # on the heap's history, so the symptom need not replay. Noted only.
            violations.append(dict(sig=sig, cls=cls, replay=None, unreproducible=True,
                                   note='seen in the batch of the un-sanitized build, '
                                        'not reproducible in a fresh process'))
            continue
        if not (ok1 and ok2 and hash_ok):
            # Not reportable: a violation is only reported with a replay file
            # that reproduces it. Whether this is a fault of the machinery is
            # decided after the other signatures were gated: a symptom that
            # hangs on the process history (heap corruption detected late, an
            # abort inside free()) next to a gated violation of the same run is
            # listed as a note; with nothing gated it is a machinery fault.
            deferred.append((cls, sig,
                             'NONDETERMINISTIC: candidate %s/%s did not reproduce identically '
                             '(run1 %s hash %s, run2 %s hash %s); plan %s' %
                             (cls, sig, ok1, r1.get('hash'), ok2, r2.get('hash'),
                              json.dumps(plan)[:2000])))
            continue
        # A hang costs its full time limit per execution: gated, not minimised.
        small, used = minimise(sim, engine, plan, prop, cls, sig, outdir,
                               entry_name=c.get('entry'),
                               budget=0 if cls == 'hang' else 400)
        # Final execution of the minimised plan, to freeze its bytes.
        rf = exec_plans(sim, engine, [small], outdir, 'final')[0]
        if not has_violation(rf, prop, cls, sig):
            # A shrinking step was accepted on a symptom that does not replay
            # reliably: report the gated, unminimised plan instead.
            small, used = plan, used
            rf = exec_plans(sim, engine, [small], outdir, 'final2')[0]
            if not has_violation(rf, prop, cls, sig):
                raise MachineryFault('gated plan lost the violation')
        replay = dict(small)
        if rf.get('bytes') is None and engine == 'chan':
            m = dict(small)
            m['materialise_only'] = 1
            rf['bytes'] = exec_plans(sim, engine, [m], outdir, 'freeze')[0].get('bytes')
        if rf.get('bytes') is not None:
            replay['bytes'] = rf['bytes']
            replay['frozen'] = 1
        doc = dict(property=prop, engine=engine, seed=seed, tier=tier,
                   variant=variant or os.path.basename(os.path.dirname(sim)),
                   violation=dict(cls=cls, signature=sig,
                                  detail=[x.get('detail') for x in rf['cands']
                                          if x.get('sig') == sig][:1],
                                  hash=rf.get('hash')),
                   minimisation=dict(executions=used,
                                     original_size=plan_complexity(plan),
                                     minimised_size=plan_complexity(small)),
                   plan=replay, results=rf.get('results'))
        os.makedirs(os.path.join(VERIF, 'replays'), exist_ok=True)
        h = hashlib.sha256(json.dumps([cls, sig]).encode()).hexdigest()[:8]
        path = os.path.join(VERIF, 'replays', '%s-%d-%s-%s.json' % (
            prop, seed, os.path.basename(os.path.dirname(sim)), h))
        with open(path, 'w') as f:
            json.dump(doc, f, indent=1)
        # Replay the file in a fresh process: must fail the same way.
        rc, msg = replay_file(path, quiet=True)
        if rc != 1:
            raise MachineryFault('replay of %s did not reproduce: %s' % (path, msg))
        violations.append(dict(sig=sig, cls=cls, replay=path, count=len(cs)))
        if cls == 'data_race':
            race_confirmed = True
    if deferred:
        if not any(v.get('replay') for v in violations):
            raise MachineryFault(deferred[0][2])
        for cls, sig, msg in deferred:
            violations.append(dict(sig=sig, cls=cls, replay=None, unreproducible=True,
                                   note='seen in the batch, does not replay in a fresh '
                                        'process (depends on the worker\'s history); '
                                        'other signatures of this run are gated'))
    return violations, known_hits


def replay_file(path, quiet=False):
    doc = load_json(path)
    prop = doc['property']
    engine = doc['engine']
    variant = doc.get('variant') or PROPS[prop]['variants'][0]
    sim, _ = build(variant)
    outdir = fresh_dir(os.path.join(VERIF, 'out', 'replay'))
    plan = dict(doc['plan'])
    plan['tier'] = doc.get('tier', 'quick')
    r = exec_plans(sim, engine, [plan], outdir, 'replay')[0]
    v = doc['violation']
    ok = has_violation(r, prop, v['cls'], v['signature'])
    same_hash = r.get('hash') == v.get('hash') or v['cls'] in NONDET_CLASSES
    if ok and same_hash:
        if not quiet:
            log('VIOLATION property=%s replay=%s' % (prop, path))
            log('  class=%s signature=%s' % (v['cls'], v['signature']))
        return 1, 'reproduced'
    if not quiet:
        log('replay did not reproduce: violation=%s hash_match=%s' % (ok, same_hash))
    return 0, 'violation=%s hash_match=%s got=%s' % (ok, same_hash,
                                                     json.dumps(r.get('cands'))[:500])


# --------------------------------------------------------------- evidence ----
def write_evidence(prop, tier, seed, level, coverage, wall_s, violations, assumptions):
    os.makedirs(os.path.join(VERIF, 'evidence'), exist_ok=True)
    doc = dict(property_id=prop, tier=tier, seed=seed, level=level,
               coverage=coverage, assumptions=assumptions,
               wall_s=round(wall_s, 3), violations=violations)
    path = os.path.join(VERIF, 'evidence', prop + '.json')
    with open(path, 'w') as f:
        json.dump(doc, f, indent=1, sort_keys=False)
    return path


def run_canaries(sim, outdir):
    """Positive and negative canaries of the seams (see sim/canary_chan.cc)."""
    d = fresh_dir(os.path.join(outdir, 'canary'))
    out = os.path.join(d, 'canary.json')
    r = run_sim(sim, ['chan', 'canary', '--out', out, '--logdir', d], timeout=600)
    if not os.path.exists(out):
        raise MachineryFault('canary run produced no result: ' + r.stderr[-1000:])
    res = load_json(out)
    if not res.get('all_ok'):
        bad = [c for c in res['canaries'] if not c['ok']]
        raise MachineryFault('canary misbehaved: ' + json.dumps(bad))
    return res['canaries']


# ------------------------------------------------------------ determinism ----
def merge_hashlog(logdir):
    import struct
    pairs = {}
    for fn in sorted(os.listdir(logdir)):
        if not fn.startswith('runhash.'):
            continue
        data = open(os.path.join(logdir, fn), 'rb').read()
        for i in range(0, len(data) - 15, 16):
            idx, h = struct.unpack_from('<QQ', data, i)
            pairs[idx] = h
    return pairs


def determinism_audit(sim, engine, tier, seed, outdir, sample_mod, extra=None,
                      tolerate=False):
    """Same sampled runs twice: W=1 and W=16, different processes, second
    without ASLR; per-run event-log hashes must agree."""
    logs = []
    for tag, w, sa in (('detA', 1, False), ('detB', workers(), True)):
        d = fresh_dir(os.path.join(outdir, tag))
        args = [engine, 'batch', '--tier', tier, '--seed', str(seed), '--out',
                os.path.join(d, 'sum.json'), '--logdir', d, '--workers', str(w),
                '--sample-mod', str(sample_mod), '--hashlog', '1', '--repo', REPO]
        if extra:
            args += extra
        r = run_sim(sim, args, timeout=7200, setarch=sa)
        if r.returncode != 0:
            raise MachineryFault('determinism audit run failed: ' + r.stderr[-2000:])
        logs.append(merge_hashlog(d))
    a, b = logs
    if not a:
        raise MachineryFault('determinism audit executed no runs')
    # Runs that one of the two executions could not finish within the harness'
    # wall-clock protection (no hash logged, or the 'undecided: wall clock'
    # sentinel 0) say nothing about determinism: they are left out, and only a
    # large share of them is a fault of the machinery.
    common = [i for i in a if i in b and a[i] != 0 and b[i] != 0]
    uncompared = (len(a) - len(common)) + len([i for i in b if i not in a])
    if uncompared > max(3, len(a) // 50):
        raise MachineryFault('determinism audit: %d of %d sampled runs could not be '
                             'compared (wall-clock protection)' % (uncompared, len(a)))
    diff = [i for i in common if a[i] != b[i]]
    if diff:
        msg = ('NONDETERMINISTIC: %d of %d sampled runs differ between '
               'W=1 and W=%d/no-ASLR executions, e.g. run %s' %
               (len(diff), len(a), workers(), diff[:5]))
        if tolerate:
            return len(a), msg
        raise MachineryFault(msg)
    return (len(a), None) if tolerate else len(a)


# ------------------------------------------------------------------ chan -----
REJECT_RX = None


def rejection_reach(sim, batch_dir, files):
    """Which rejecting branches (return false / -1 / error Status) of the
    anchored decoder files were taken at least once under faults."""
    import re
    import struct
    global REJECT_RX
    if REJECT_RX is None:
        REJECT_RX = re.compile(r'^\s*return\s+(false|-1|nullptr|Status\(|Error|ErrorStatus)')
    path = os.path.join(batch_dir, 'covered_pcs.bin')
    if not os.path.exists(path):
        return None
    data = open(path, 'rb').read()
    pcs = [struct.unpack_from('<Q', data, i)[0] for i in range(0, len(data) - 7, 8)]
    if not pcs:
        return None
    r = subprocess.run([SYMBOLIZER, '--obj=' + sim, '-s', '-i', '--no-demangle'],
                       input='\n'.join('0x%x' % p for p in pcs), capture_output=True,
                       text=True)
    covered = set()
    for line in r.stdout.split('\n'):
        m = re.match(r'^([^\s:]+):(\d+):\d+$', line.strip())
        if m:
            covered.add((m.group(1), int(m.group(2))))
    sites = []
    src = os.path.join(REPO, 'src', 'draco')
    for rel in files:
        base = os.path.join(src, rel)
        paths = []
        if os.path.isdir(base):
            for root, _, fns in os.walk(base):
                for fn in fns:
                    if (fn.endswith('.h') or fn.endswith('.cc')) and 'decod' in fn \
                            and not fn.endswith('_test.cc'):
                        paths.append(os.path.join(root, fn))
        elif os.path.exists(base):
            paths.append(base)
        for pth in paths:
            for no, text in enumerate(open(pth, errors='replace'), 1):
                if REJECT_RX.match(text):
                    sites.append((os.path.basename(pth), no))
    sites = sorted(set(sites))
    reached = [s for s in sites if s in covered]
    missed = [s for s in sites if s not in covered]
    return dict(rejection_sites=len(sites), reached=len(reached),
                never_taken=['%s:%d' % s for s in missed][:80],
                note='a rejecting branch that no fault has ever taken is a guard this '
                     'check could not notice losing; edges are basic-block starts '
                     'symbolised to file:line (inlined copies count for their line)')


def chan_coverage(summary, sim, samples, prop):
    st = summary['stats']
    kinds = {k: dict(planned=v[0], applied=v[1], effective=v[2])
             for k, v in sorted(st['kinds'].items())}
    outcomes = {}
    for k, v in st['outcomes'].items():
        outcomes[k] = v
    by_outcome = {}
    for k, v in st['outcomes'].items():
        o = k.split('|')[1]
        by_outcome[o] = by_outcome.get(o, 0) + v
    wall = max(summary['wall_s'], 1e-9)
    cov = dict(
        evaluations=summary['calls'],
        runs=summary['runs'],
        runs_per_hour=int(summary['runs'] / wall * 3600),
        decode_calls=summary['calls'],
        seeds=dict(first=0, last=summary['total_planned'] - 1,
                   count=summary['runs'],
                   note='run i uses mix(VERIF_SEED, engine, i); enumerated '
                        'single-site faults of corpus streams are seed independent'),
        logical_steps_total=summary['steps'],
        simulated_time='logical steps only (Draco basic-block edges); the claimed '
                       'surfaces read no clock, so there is no simulated wall time',
        distinct_nontrivial=summary['distinct_effective'],
        rule='one evaluation = one decoder entry point run on one faulted stream. '
             'Plans are enumerated (every truncation, 14 byte / 11 word / 24 varint '
             'patterns at every offset, 360 header rewrites per small substrate; '
             'every tamper event x 4 replacements of curated substrates) and seeded '
             '(multi-site swarm plans, splices). A case is non-trivial when the fault '
             'was effective: status, digest or step count of some entry point differs '
             'from the un-faulted baseline of the same substrate; distinct = distinct '
             '(final bytes, entry set) by 64-bit hash, merged over workers.',
        fault_kinds=kinds,
        outcome_classes=len(outcomes),
        outcomes_by_class=by_outcome,
        accepted_with_changed_digest=st['accepted_changed'],
        undecided_budget=by_outcome.get('undecided_budget', 0),
        tolerated_alloc_failure=by_outcome.get('tolerated_alloc_failure', 0),
        worker_deaths=summary['deaths'],
        substrates=len(summary['substrates']),
        substrates_enumerated=sum(1 for s in summary['substrates'] if s['enumerated']),
        substrates_tamper_enumerated=sum(1 for s in summary['substrates']
                                         if s.get('tamper_enumerated')),
        corpus_skipped=summary['corpus_skipped'],
        substrates_rejected_by_encoder=len(summary['substrates_rejected_by_encoder']),
        c18_calibration=dict(max_single_request=st['max_single'],
                             u_at_max_single=st['max_single_u'],
                             max_peak=st['max_peak'], u_at_max_peak=st['max_peak_u'],
                             calls_with_declared_count_ge_2p20=st['big_declared_calls']),
        components=dict(
            real=['draco encoders (Encoder, ExpertEncoder, KeyframeAnimationEncoder)',
                  'draco decoders (all entry points)', 'TriangleSoupMeshBuilder',
                  'PointCloudBuilder', 'operator new behind the seam is real malloc'],
            stubbed=['storage/transport between EncoderBuffer and DecoderBuffer '
                     '(simulated medium with fault plan)',
                     'allocator policy (accounting, budget, simulated bad_alloc)',
                     'encoders of older bitstreams (2.1 sequential meshes, 2.2 kd-tree '
                     'point clouds): legacy-writer stub that rewrites the container '
                     'bytes of the current encoder\'s output / frames the payload of '
                     'FloatPointsTreeEncoder; validated by the legacy_stub canaries',
                     'Byzantine Edgebreaker writer (sim/byz.cc): well-formed streams with '
                     'freely chosen symbols, split events, start-face / seam bits and '
                     'counts, written with the library\'s own bit / varint primitives; '
                     'its reference instance is validated by the byz_writer canary']),
        exhaustive=False,
        samples=samples,
    )
    return cov


def chan_plans_of(sim, tier, seed, idxs):
    r = run_sim(sim, ['chan', 'planof', '--tier', tier, '--seed', str(seed),
                      '--idx', ','.join(str(i) for i in idxs), '--repo', REPO],
                timeout=1800)
    if r.returncode != 0:
        return []
    out = []
    for line in r.stdout.strip().split('\n'):
        if line.startswith('{'):
            p = json.loads(line)
            p['tier'] = tier
            out.append(p)
    return out


def chan_samples(sim, summary, tier, seed, outdir, n=4):
    total = summary['total_planned']
    idxs = sorted(set([1, total // 3, (2 * total) // 3, total - 1]))[:n]
    plans = chan_plans_of(sim, tier, seed, idxs)
    out = []
    if plans:
        res = exec_plans(sim, 'chan', plans, outdir, 'samples',
                         nworkers=min(4, len(plans)))
        for i, p, r in zip(idxs, plans, res):
            for op in p.get('faults', []):
                if 'src' in op:
                    op['src'] = op['src'][:32] + '...'
            out.append(dict(run=i, plan=p,
                            results=[dict(entry=x['entry'], outcome=x['outcome'],
                                          status=x['status_msg'], steps=x['steps'],
                                          alloc_peak=x['alloc_peak'])
                                     for x in r.get('results', [])]))
    return out


def valgrind_pass(prop, tier, seed, total, outdir, nplans=300):
    """Memcheck over a fixed sample of plans on the un-sanitized -O2 build:
    use of an uninitialised value in a branch or address is UB that ASan/UBSan
    do not see. Returns (candidates, stats)."""
    sim, _ = build('plain')
    step = max(1, total // nplans)
    idxs = list(range(1, total, step))[:nplans]
    plans = chan_plans_of(sim, tier, seed, idxs)
    if not plans:
        return [], dict(plans=0)
    d = fresh_dir(os.path.join(outdir, 'valgrind'))
    pf = os.path.join(d, 'plans.jsonl')
    with open(pf, 'w') as f:
        for p in plans:
            f.write(json.dumps(p) + '\n')
    logdir = fresh_dir(os.path.join(d, 'logs'))
    cmd = ['valgrind', '-q', '--trace-children=yes', '--error-limit=no',
           '--num-callers=16', '--undef-value-errors=yes', sim, 'chan', 'exec',
           '--plans', pf, '--out', os.path.join(d, 'res.jsonl'), '--workers', '1',
           '--logdir', logdir, '--repo', REPO]
    t0 = time.time()
    r = subprocess.run(cmd, cwd=VERIF, env=sim_env(), capture_output=True, text=True,
                       timeout=7200)
    text = r.stderr
    for fn in sorted(os.listdir(logdir)):
        text += open(os.path.join(logdir, fn), errors='replace').read()
    cands = []
    cur = None
    blocks = []
    block = None
    for line in text.split('\n'):
        if line.startswith('SIM-PLAN '):
            cur = int(line.split()[1])
            continue
        if line.startswith('=='):
            body = line.split('== ', 1)[1] if '== ' in line else ''
            if body and not body.startswith(' ') and not body.startswith('at ') \
                    and not body.startswith('by '):
                block = dict(plan=cur, head=body.strip(), frames=[])
                blocks.append(block)
            elif block is not None and ('at 0x' in body or 'by 0x' in body):
                block['frames'].append(body.strip())
    interesting = ('Conditional jump', 'Use of uninitialised', 'Invalid read',
                   'Invalid write', 'Syscall param', 'Invalid free', 'Mismatched')
    for b in blocks:
        if not b['head'].startswith(interesting):
            continue
        fr = [f for f in b['frames'] if 'draco::' in f]
        if not fr:
            continue   # harness / libc only: not Draco's
        fn = fr[0].split(': ', 1)[1] if ': ' in fr[0] else fr[0]
        fn = strip_templates(fn.split(' (')[0])
        if b['plan'] is None or b['plan'] >= len(plans):
            continue
        cands.append({'t': 'cand', 'prop': prop, 'class': 'valgrind',
                      'sig': 'valgrind:%s@%s' % (b['head'].split(' of size')[0], fn),
                      'detail': b['head'] + ' | ' + ' | '.join(b['frames'][:4]),
                      'plan': plans[b['plan']]})
    return cands, dict(plans=len(plans), wall_s=round(time.time() - t0, 1),
                       error_blocks=len(blocks), draco_errors=len(cands))


def check_chan(prop, tier, seed):
    t0 = time.time()
    variants = PROPS[prop]['thorough_variants' if tier == 'thorough' else 'variants']
    outdir = fresh_dir(os.path.join(VERIF, 'out', '%s-%s' % (prop, tier)))
    budget = env_int('VERIF_BUDGET_S', 900 if tier == 'thorough' else 0)
    all_viol = []
    all_known = {}
    summaries = []
    det_runs = 0
    sims = {}
    for v in variants:
        sims[v], _ = build(v)
    canaries = {}
    for v in variants:
        canaries[v] = run_canaries(sims[v], os.path.join(outdir, 'canary-' + v))
    # Determinism first: nothing is believed before it holds.
    det_mod = 4001 if tier == 'thorough' else 1499
    det_runs = determinism_audit(sims[variants[0]], 'chan', tier, seed,
                                 os.path.join(outdir, 'det'), det_mod)
    for v in variants:
        sim = sims[v]
        d = fresh_dir(os.path.join(outdir, 'batch-' + v))
        args = ['chan', 'batch', '--tier', tier, '--seed', str(seed), '--out',
                os.path.join(d, 'sum.json'), '--logdir', d, '--workers',
                str(workers()), '--repo', REPO]
        if v == 'dbg':
            # Debug assertions kill the worker: many deaths are expected there.
            args += ['--max-deaths', '20000']
        if budget:
            args += ['--budget', str(budget * (0.7 if v == variants[0] else 0.3)
                                     if len(variants) > 1 else budget)]
        if v == 'plain' and tier == 'quick':
            # Second build in quick: every third run is enough (single-site
            # enumeration stays complete in the sanitized build).
            args += ['--sample-mod', '3']
        r = run_sim(sim, args, timeout=max(3600, budget * 2))
        if r.returncode != 0:
            raise MachineryFault('chan batch failed (%s): %s' % (v, r.stderr[-3000:]))
        summary = load_json(os.path.join(d, 'sum.json'))
        summary['variant'] = v
        summaries.append(summary)
        mach = [c for c in summary['candidates'] if c.get('t') == 'machinery']
        if mach:
            raise MachineryFault('worker died outside a run: ' + json.dumps(mach[0])[:3000])
        cands = [normalise_candidate(sim, c) for c in summary['candidates']
                 if c.get('t') == 'cand' and c.get('prop') == prop]
        sanitized_saw_crashes = any(
            c.get('t') == 'cand' and c.get('prop') == 'C02'
            for s0 in summaries if s0['variant'] != 'plain' for c in s0['candidates'])
        viol, known = process_candidates(
            prop, 'chan', sim, cands, os.path.join(outdir, 'gate-' + v), seed, tier,
            variant=v, tolerate_unreproducible=(v == 'plain' and sanitized_saw_crashes))
        unrepro = [x for x in viol if x.get('unreproducible')]
        viol = [x for x in viol if not x.get('unreproducible')]
        for x in unrepro:
            log('NOTE: %s candidate %s of the plain build did not replay; the sanitized '
                'build reports memory errors (C02) on this tree' % (prop, x['sig']))
        for x in viol:
            x['variant'] = v
            if x.get('replay'):
                doc = load_json(x['replay'])
                doc['variant'] = v
                json.dump(doc, open(x['replay'], 'w'), indent=1)
        all_viol += viol
        for k, n in known.items():
            all_known[k] = all_known.get(k, 0) + n
    main = summaries[0]
    vg_stats = None
    if tier == 'thorough' and prop == 'C02':
        vg_cands, vg_stats = valgrind_pass(prop, tier, seed, main['total_planned'], outdir)
        # Valgrind findings are reported with the plan that triggered them; the
        # replay is the plan itself (re-run under valgrind to see the report).
        known = load_known()
        seen = set()
        for c in vg_cands:
            if c['sig'] in seen:
                continue
            seen.add(c['sig'])
            k = match_known(known, prop, c['sig'])
            if k is not None:
                all_known[c['sig']] = all_known.get(c['sig'], 0) + 1
                continue
            os.makedirs(os.path.join(VERIF, 'replays'), exist_ok=True)
            h = hashlib.sha256(c['sig'].encode()).hexdigest()[:8]
            path = os.path.join(VERIF, 'replays', '%s-%d-valgrind-%s.json' % (prop, seed, h))
            json.dump(dict(property=prop, engine='chan', variant='plain', seed=seed,
                           tier=tier, tool='valgrind',
                           violation=dict(cls='valgrind', signature=c['sig'],
                                          detail=[c['detail']], hash=None),
                           plan=c['plan']), open(path, 'w'), indent=1)
            all_viol.append(dict(sig=c['sig'], cls='valgrind', replay=path, variant='plain'))
    samples = chan_samples(sims[variants[0]], main, tier, seed, os.path.join(outdir, 'samples'))
    cov = chan_coverage(main, sims[variants[0]], samples, prop)
    cov['determinism_audit_runs'] = det_runs
    cov['edges_reached'] = dict(reached=main.get('edges_reached'),
                                instrumented=main.get('num_guards'))
    if tier == 'thorough':
        anchors = []
        for line in open(os.path.join(VERIF, 'properties.jsonl')):
            pj = json.loads(line)
            if pj['id'] == prop:
                anchors = [f[len('src/draco/'):] for f in pj['anchors']['files']
                           if f.startswith('src/draco/')]
        # Reach is measured on an unoptimised build (at -O1 all "return false"
        # of a function share one basic block), with the same plans, sampled.
        try:
            rsim, _ = build('reach')
            rd = fresh_dir(os.path.join(outdir, 'batch-reach'))
            rr_run = run_sim(rsim, ['chan', 'batch', '--tier', tier, '--seed', str(seed),
                                    '--out', os.path.join(rd, 'sum.json'), '--logdir', rd,
                                    '--workers', str(workers()), '--repo', REPO,
                                    '--budget', str(max(60, budget // 6 if budget else 60))],
                             timeout=7200)
            rr = rejection_reach(rsim, rd, anchors) if rr_run.returncode == 0 else None
            if rr:
                rs = load_json(os.path.join(rd, 'sum.json'))
                rr['measured_on'] = dict(build='reach (-O0, trace-pc-guard)',
                                         runs=rs['runs'], wall_s=round(rs['wall_s'], 1))
                cov['rejection_site_reach'] = rr
        except MachineryFault as e:
            cov['rejection_site_reach'] = dict(error=str(e))
    cov['canaries'] = canaries
    cov['builds'] = variants
    if vg_stats is not None:
        cov['valgrind_memcheck_pass'] = vg_stats
    if len(summaries) > 1:
        cov['additional_builds'] = [dict(variant=s['variant'], runs=s['runs'],
                                         calls=s['calls'], deaths=s['deaths'])
                                    for s in summaries[1:]]
    other = {}
    for s in summaries:
        for c in s['candidates']:
            if c.get('t') == 'cand' and c.get('prop') != prop:
                other[c.get('prop')] = other.get(c.get('prop'), 0) + 1
    cov['candidates_of_other_properties_seen'] = other
    cov['known_findings_hit'] = all_known
    cov['undecided_samples'] = [
        dict(run=u.get('idx'), entry=u.get('entry'), steps=u.get('steps'),
             where=(symbolize(sims[variants[0]], [u['pc']])[0][-1]
                    if u.get('pc') else u.get('class')),
             declared=u.get('declared'))
        for u in main['undecided'][:8]]
    assumptions = [
        'sampled, not exhaustive over byte strings; complete only over the listed '
        'single-site fault patterns of the enumerated substrates',
        'memory safety / UB as far as ASan + UBSan + guard pages see it',
        'termination violations are reported only on an exact recurrence of the '
        'complete machine state; budget exhaustion alone is undecided',
        'hook code (DRACO_VERIF) is add-only and does not change decoder behaviour',
    ]
    write_evidence(prop, tier, seed, PROPS[prop]['level'], cov, time.time() - t0,
                   len([x for x in all_viol]), assumptions)
    return finish(prop, all_viol, all_known)


def finish(prop, violations, known_hits):
    known = load_known()
    for sig, n in sorted(known_hits.items()):
        k = match_known(known, prop, sig)
        log('KNOWN-FINDING: property=%s %s (signature %s, %d hits)' %
            (prop, k.get('what', ''), sig, n))
    if violations:
        for v in violations:
            if v.get('replay'):
                log('VIOLATION property=%s replay=%s' % (prop, v['replay']))
                log('  class=%s signature=%s' % (v['cls'], v['sig']))
            else:
                log('  further violation class=%s signature=%s (%s)' %
                    (v['cls'], v['sig'], v.get('note')))
        return 1
    log('OK property=%s' % prop)
    return 0


# -------------------------------------------------------------- baseline -----
def baseline():
    """Guard-off build of /repo/_build and the pinned test suite."""
    base = load_json('/root/.vp/BASELINE.json')
    want = set(base['stable_pass'])
    b = os.path.join(REPO, '_build')
    r = subprocess.run(['cmake', '--build', b], capture_output=True, text=True)
    if r.returncode != 0:
        log(r.stdout[-3000:] + r.stderr[-3000:])
        log('baseline build failed')
        return 1
    import xml.etree.ElementTree as ET
    passed = set()
    tmp = fresh_dir(os.path.join(VERIF, 'out', 'baseline'))
    for i, binname in enumerate(['draco_tests', 'draco_factory_tests']):
        xml = os.path.join(tmp, 'r%d.xml' % i)
        subprocess.run([os.path.join(b, binname), '--gtest_output=xml:' + xml],
                       cwd=b, capture_output=True, text=True)
        if not os.path.exists(xml):
            continue
        for tc in ET.parse(xml).getroot().iter('testcase'):
            if tc.find('failure') is None and tc.find('error') is None and \
                    tc.get('status', 'run') != 'notrun':
                passed.add('%s::%s' % (tc.get('classname'), tc.get('name')))
    missing = sorted(want - passed)
    log('baseline: %d of %d stable tests pass with the guard off' %
        (len(want & passed), len(want)))
    if missing:
        log('FAILING: ' + ', '.join(missing[:20]))
        return 1
    return 0


# ------------------------------------------------------------------ main -----
def main(argv):
    if not argv:
        print(__doc__)
        return 2
    cmd = argv[0]
    tier = os.environ.get('VERIF_TIER', 'quick')
    if '--tier' in argv:
        tier = argv[argv.index('--tier') + 1]
    seed = env_int('VERIF_SEED', 1) & ((1 << 62) - 1)
    try:
        if cmd == 'setup':
            from engines import setup
            return setup()
        if cmd == 'baseline':
            return baseline()
        if cmd == 'replay':
            rc, msg = replay_file(argv[1])
            return rc
        if cmd == 'selfcheck':
            from engines import selfcheck
            return selfcheck(tier, seed)
        if cmd == 'check':
            prop = argv[1]
            if prop not in PROPS:
                log('property %s is not claimed (see MANIFEST not_applicable)' % prop)
                return 2
            eng = PROPS[prop]['engine']
            if eng == 'chan':
                return check_chan(prop, tier, seed)
            from engines import check_engine
            return check_engine(prop, tier, seed)
    except MachineryFault as e:
        log('MACHINERY-FAULT: %s' % e)
        return 2
    print(__doc__)
    return 2
