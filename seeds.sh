#!/bin/bash
# Runs every quick check under several VERIF_SEED values (false-alarm hunt).
cd /verif
for s in ${SEEDS:-2 3 5 7 11}; do
  for p in C02 C03 C18 C06 C17 C19; do
    start=$(date +%s)
    VERIF_SEED=$s ./verif check $p --tier quick > out/seed-$s-$p.log 2>&1
    echo "seed=$s $p rc=$? $(( $(date +%s) - start ))s $(grep -E '^VIOLATION|MACHINERY|^  class' out/seed-$s-$p.log | head -3 | tr '\n' ' ')"
  done
done
