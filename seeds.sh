#!/bin/bash
# Runs every quick check under several VERIF_SEED values (false-alarm hunt) on
# scratch copies of /repo and of the committed /verif (see seeded/try.sh), so
# that files being edited here do not leak into the runs.
cd /verif
for s in ${SEEDS:-2 3 5 7 11}; do
  echo "##### seed $s"
  VERIF_SEED=$s TRY_DIR=${TRY_DIR:-/tmp/wt/try} bash seeded/try.sh clean C02 C03 C18 C06 C17 C19 2>&1 | grep -E "^===|^rc=|^VIOLATION|MACHINERY|^  class"
done
